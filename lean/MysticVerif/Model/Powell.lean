/-
Powell's direction-set method: `refPowell`, a transcription of the in-repo reference
`mystic/_scipy060optimize.py` `fmin_powell` (l.1740-1908), and `mysticPowell`, the staged machine
`PowellDirectionalSolver._Step` (scipy_optimize.py l.608-746: generation 0 = evaluate the guess, generation 1 = the
first direction loop, generation >= 2 = the SECOND half of the previous iteration - extrapolated point, `t`-test,
direction replacement - fused with the next direction loop) driven by `fmin_powell`'s `Solve` with
`NormalizedChangeOverGeneration(ftol, 2)` (termination.py l.219-240) on an unconstrained problem.

The Brent line search is an ORACLE: `ls p xi = (fret, p + a*xi, a*xi, number of cost calls)`
(`_linesearch_powell`, l.552-562 / l.1729-1737); so is the cost at the extrapolated point.  The bookkeeping is
modelled exactly: `fx`, `fx2`, `delta`, `bigind` (strict `>`: the FIRST direction of largest decrease), the
extrapolation `x2 = 2*x - x1`, the test `t < 0` with the operations in the order written, and
`direc[bigind] = direc[-1]; direc[-1] = direc1`.  Every line search requested is logged (`reqs`), so a replay
against a real run compares the two programs step for step.  No Mathlib imports.
-/
import MysticVerif.Model.NelderMead

namespace MysticVerif.Powell
open MysticVerif.Solver

variable {R E : Type}

structure LsOut (R E : Type) where
  fret : E
  x : Pt R          -- p + alpha_min * xi
  xi : Pt R         -- alpha_min * xi
  ncalls : Nat      -- cost evaluations Brent made

/-- the oracles and constants of one run -/
structure Cfg (R E : Type) where
  ls : Pt R → Pt R → LsOut R E
  f : Pt R → E
  /-- `2.0*(fx - fval) <= ftol*(abs(fx)+abs(fval))+1e-20` -/
  conv : E → E → Bool
  two : R
  twoE : E
  zeroE : E
  maxiter : Nat
  maxfun : Nat

/-- what both programs carry from one direction loop to the next stop test -/
structure St (R E : Type) where
  x : Pt R
  fval : E
  x1 : Pt R
  fx : E
  delta : E
  bigind : Nat
  direc : List (Pt R)
  fcalls : Nat
  iter : Nat
  reqs : List (Pt R × Pt R)      -- (p, xi) of every line search so far
  exts : List (Pt R)             -- extrapolated points evaluated so far

/-- the direction loop (reference l.1847-1853, mystic l.673-683 / l.722-732):
```
for i in ilist:
    direc1 = direc[i]; fx2 = fval
    fval, x, direc1 = _linesearch_powell(func, x, direc1, tol=xtol*100)
    if (fx2 - fval) > delta: delta = fx2 - fval; bigind = i
```
(the scaled direction returned by the line search is dropped: `direc` is not updated here); `dirStep` is one pass -/
def dirStep [Sub E] [LT E] [DecidableLT E] (ls : Pt R → Pt R → LsOut R E) (d : Pt R) (i : Nat) (s : St R E) : St R E :=
  { s with x := (ls s.x d).x, fval := (ls s.x d).fret,
           delta := if s.delta < s.fval - (ls s.x d).fret then s.fval - (ls s.x d).fret else s.delta,
           bigind := if s.delta < s.fval - (ls s.x d).fret then i else s.bigind,
           fcalls := s.fcalls + (ls s.x d).ncalls,
           reqs := s.reqs ++ [(s.x, d)] }

def dirLoop [Sub E] [LT E] [DecidableLT E] (ls : Pt R → Pt R → LsOut R E) : List (Pt R) → Nat → St R E → St R E
  | [], _, s => s
  | d :: ds, i, s => dirLoop ls ds (i + 1) (dirStep ls d i s)

/-- `fx = fval; bigind = 0; delta = 0.0; <direction loop>; iter += 1` -/
def sweep [Sub E] [LT E] [DecidableLT E] (c : Cfg R E) (s : St R E) : St R E :=
  let s' := dirLoop c.ls s.direc 0 { s with fx := s.fval, delta := c.zeroE, bigind := 0 }
  { s' with iter := s.iter + 1 }

/-- the second half of an iteration (reference l.1863-1878, mystic l.688-711):
```
direc1 = x - x1; x2 = 2*x - x1; x1 = x.copy(); fx2 = squeeze(func(x2))
if (fx > fx2):
    t = 2.0*(fx+fx2-2.0*fval); temp = (fx-fval-delta); t *= temp*temp; temp = fx-fx2; t -= delta*temp*temp
    if t < 0.0:
        fval, x, direc1 = _linesearch_powell(func, x, direc1, tol=xtol*100)
        direc[bigind] = direc[-1]; direc[-1] = direc1
``` -/
def extrapolate [Sub R] [Mul R] [Add E] [Sub E] [Mul E] [LT E] [DecidableLT E] (c : Cfg R E) (s : St R E) : St R E :=
  let direc1 := vsub s.x s.x1
  let x2 := vsub (vscale c.two s.x) s.x1
  let fx2 := c.f x2
  let s1 := { s with x1 := s.x, fcalls := s.fcalls + 1, exts := s.exts ++ [x2] }
  if fx2 < s.fx then
    let t0 := c.twoE * (s.fx + fx2 - c.twoE * s.fval)
    let temp := s.fx - s.fval - s.delta
    let t1 := t0 * (temp * temp)
    let temp2 := s.fx - fx2
    let t := t1 - s.delta * temp2 * temp2
    if t < c.zeroE then
      let r := c.ls s.x direc1
      let last := s.direc.getLast?.getD []
      { s1 with fval := r.fret, x := r.x, fcalls := s1.fcalls + r.ncalls, reqs := s.reqs ++ [(s.x, direc1)],
                direc := (s.direc.set s.bigind last).set (s.direc.length - 1) r.xi }
    else s1
  else s1

/-- `(xopt, fopt, direc, iter, funcalls, warnflag)` + the log of oracle calls -/
structure Out (R E : Type) where
  st : St R E
  warnflag : Nat

def finish (c : Cfg R E) (s : St R E) : Out R E :=
  { st := s, warnflag := if c.maxfun ≤ s.fcalls then 1 else if c.maxiter ≤ s.iter then 2 else 0 }

/-- initial state: `fval = squeeze(func(x)); x1 = x.copy(); iter = 0` -/
def init (c : Cfg R E) (x0 : Pt R) (direc : List (Pt R)) : St R E :=
  { x := x0, fval := c.f x0, x1 := x0, fx := c.f x0, delta := c.zeroE, bigind := 0, direc := direc, fcalls := 1, iter := 0,
    reqs := [], exts := [] }

/-! ### the reference: `while True: sweep; if converged/limits: break; extrapolate` -/

/-- l.1859-1861 -/
def refStop (c : Cfg R E) (s : St R E) : Bool :=
  c.conv s.fx s.fval || decide (c.maxfun ≤ s.fcalls) || decide (c.maxiter ≤ s.iter)

def refLoop [Sub R] [Mul R] [Add E] [Sub E] [Mul E] [LT E] [DecidableLT E] (c : Cfg R E) : Nat → St R E → Option (Out R E)
  | 0, _ => none
  | fuel + 1, s =>
    if refStop c (sweep c s) = true then some (finish c (sweep c s))
    else refLoop c fuel (extrapolate c (sweep c s))

def refPowell [Sub R] [Mul R] [Add E] [Sub E] [Mul E] [LT E] [DecidableLT E] (c : Cfg R E) (fuel : Nat) (x0 : Pt R)
    (direc : List (Pt R)) : Option (Out R E) :=
  refLoop c fuel (init c x0 direc)

/-! ### mystic: the staged machine -/

/-- the solver between two `Step`s: the shared record plus `energy_history` (oldest first) -/
structure MSt (R E : Type) where
  s : St R E
  hist : List E

/-- `NormalizedChangeOverGeneration(ftol, 2)`: needs three history entries, then tests the last two
(`hist[-2] == hist[-1]` or `2.0*(hist[-2]-hist[-1]) <= ftol*(abs(hist[-2])+abs(hist[-1])) + 1e-20`: the oracle) -/
def ncog2 (conv : E → E → Bool) (hist : List E) : Bool :=
  if hist.length ≤ 2 then false
  else
    match hist.reverse with
    | last :: prev :: _ => conv prev last
    | _ => false

/-- `Terminated()`: evaluation limit, iteration limit (`generations = len(energy_history) - 1`), NCOG -/
def mStop (c : Cfg R E) (m : MSt R E) : Bool :=
  decide (c.maxfun ≤ m.s.fcalls) || decide (c.maxiter ≤ m.hist.length - 1) || ncog2 c.conv m.hist

/-- generation 0 (l.647-664): evaluate the guess, log it -/
def mGen0 (c : Cfg R E) (x0 : Pt R) (direc : List (Pt R)) : MSt R E :=
  { s := init c x0 direc, hist := [c.f x0] }

/-- generation 1 (l.666-685): `x1 = x.copy(); fx = fval; bigind = 0; delta = 0.0; <direction loop>;
energy_history = energy_history + [fval]` -/
def mGen1 [Sub E] [LT E] [DecidableLT E] (c : Cfg R E) (m : MSt R E) : MSt R E :=
  let s' := sweep c { m.s with x1 := m.s.x }
  { s := s', hist := m.hist ++ [s'.fval] }

/-- generation >= 2 (l.687-735): second half of the previous iteration from the stored internals
`[x1, fx, bigind, delta]`; `energy_history = None` (resynchronised with the step monitor: the last entry becomes
the energy after the extrapolation step) and the new record; then the next direction loop -/
def mGenN [Sub R] [Mul R] [Add E] [Sub E] [Mul E] [LT E] [DecidableLT E] (c : Cfg R E) (m : MSt R E) : MSt R E :=
  let e := extrapolate c m.s
  let s' := sweep c e
  { s := s', hist := m.hist.dropLast ++ [e.fval] ++ [s'.fval] }

def mLoop [Sub R] [Mul R] [Add E] [Sub E] [Mul E] [LT E] [DecidableLT E] (c : Cfg R E) : Nat → MSt R E → Option (Out R E)
  | 0, _ => none
  | fuel + 1, m =>
    if mStop c m = true then some (finish c m.s)
    else mLoop c fuel (mGenN c m)

/-- `fmin_powell`: generation 0, `Terminated`?, generation 1, then `Terminated`? / generation >= 2 alternately -/
def mysticPowell [Sub R] [Mul R] [Add E] [Sub E] [Mul E] [LT E] [DecidableLT E] (c : Cfg R E) (fuel : Nat) (x0 : Pt R)
    (direc : List (Pt R)) : Option (Out R E) :=
  if mStop c (mGen0 c x0 direc) = true then some (finish c (mGen0 c x0 direc).s)
  else mLoop c fuel (mGen1 c (mGen0 c x0 direc))

end MysticVerif.Powell
