/-
Model of `mystic.monitors.Monitor` (monitors.py l.113-371), the logging part of `LoggingMonitor`
(l.431-514), the k-arithmetic of `mystic.tools` (`_kdiv/_multiply/_divide/_idivide`, l.90-217), the
three-column log line and `munge.logfile_reader` (munge.py l.95-126) at token level, and the parameter-file
transformations of `mystic.munge` (`raw_to_converge`, `converge_to_support`, `_process_ids`,
`write_raw_file`, `write_support_file`, `write_converge_file`, `read_raw_file`, `read_history`).

Generic in the scalar `R` (operations only).  The driver runs it at `Float`, the theorems at a field.
No Mathlib imports: this file is linked into `mvdrv`.
-/

namespace MysticVerif.Mon

/-- a recorded value after `tools.listify` (tools.py l.251): a scalar, a flat list, or a list of lists -/
inductive PV (R : Type) where
  | sc (v : R)
  | vec (l : List R)
  | mat (l : List (List R))
  deriving Repr, Inhabited, DecidableEq

variable {R : Type}

def PV.map (f : R → R) : PV R → PV R
  | .sc v => .sc (f v)
  | .vec l => .vec (l.map f)
  | .mat l => .mat (l.map (·.map f))

/-- `tools._multiply(y, k)` / `_imultiply` followed by `listify` (tools.py l.150-164, 180-190): `k is None`
returns `y`; otherwise every scalar leaf becomes `leaf * k` -/
def cmul [Mul R] (k : Option R) (y : PV R) : PV R :=
  match k with
  | none => y
  | some n => y.map (· * n)

/-- `tools._divide(y, k)` (l.166-178): every scalar leaf becomes `leaf / k` (`k is None` returns `y`) -/
def cdiv [Div R] (k : Option R) (y : PV R) : PV R :=
  match k with
  | none => y
  | some n => y.map (· / n)

/-- `tools._kdiv(num, denom, float)` (l.90-96) -/
def kdiv [Div R] [OfNat R 1] (num denom : Option R) : Option R :=
  match num, denom with
  | none, none => none
  | _, _ => some (num.getD 1 / denom.getD 1)

/-- the monitor state: `_x`, `_y` (k-scaled), `_id`, `_info`, `k`, and the logging interval
(`none` = not a logging monitor, or `interval` falsy -> `numpy.inf`) -/
structure Mon (R : Type) where
  x : List (PV R) := []
  y : List (PV R) := []
  id : List (Option Int) := []
  info : List Nat := []
  k : Option R := none
  interval : Option Nat := none
  deriving Inhabited

/-- `Monitor.__len__` : `len(self.x)` -/
def Mon.len (m : Mon R) : Nat := m.x.length

/-- `Monitor.__call__(x, y, id)` (l.153-157) -/
def Mon.call [Mul R] (m : Mon R) (x y : PV R) (id : Option Int) : Mon R :=
  { m with x := m.x ++ [x], y := m.y ++ [cmul m.k y], id := m.id ++ [id] }

/-- `Monitor.info(message)` (l.149) -/
def Mon.addInfo (m : Mon R) (msg : Nat) : Mon R := { m with info := m.info ++ [msg] }

/-- `Monitor.get_y` (l.329): `_divide(self._y, 1 if self.k is None else self.k)`; dividing by the integer 1 is
the identity on every float (and is skipped for lists by the `n == 1` shortcut) -/
def Mon.getY [Div R] (m : Mon R) : List (PV R) := m.y.map (cdiv m.k)

/-- Python index normalisation for a sequence of length `n` (`IndexError` = `none`) -/
def pyIdx (n : Nat) (i : Int) : Option Nat :=
  if 0 ≤ i then (if i.toNat < n then some i.toNat else none)
  else if (-i).toNat ≤ n then some (n - (-i).toNat) else none

/-- `Monitor.__getitem__(i)` for an integer (l.176-177): `self.x[i], self.y[i]` -/
def Mon.getItem [Div R] (m : Mon R) (i : Int) : Option (PV R × PV R) :=
  match pyIdx m.len i with
  | none => none
  | some j =>
    match m.x[j]?, m.getY[j]? with
    | some a, some b => some (a, b)
    | _, _ => none

/-! ### slices (`slice.indices` of CPython, then `range(start, stop, step)`) -/

/-- `PySlice_AdjustIndices`: clamp one bound -/
def adjBound (n : Nat) (step : Int) (v : Int) : Int :=
  let lower : Int := if step < 0 then -1 else 0
  let upper : Int := if step < 0 then (n : Int) - 1 else (n : Int)
  if v < 0 then (if v + n < lower then lower else v + n) else (if v > upper then upper else v)

def sliceStart (n : Nat) (start : Option Int) (step : Int) : Int :=
  match start with
  | none => if step < 0 then (n : Int) - 1 else 0
  | some v => adjBound n step v

def sliceStop (n : Nat) (stop : Option Int) (step : Int) : Int :=
  match stop with
  | none => if step < 0 then -1 else (n : Int)
  | some v => adjBound n step v

/-- `range(s, e, step)` for `step > 0`, as naturals (fuel = number of elements at most) -/
def rangeUp (e step : Int) : Nat → Int → List Nat
  | 0, _ => []
  | fuel + 1, s => if s < e then s.toNat :: rangeUp e step fuel (s + step) else []

/-- `range(s, e, step)` for `step < 0` -/
def rangeDown (e step : Int) : Nat → Int → List Nat
  | 0, _ => []
  | fuel + 1, s => if e < s then s.toNat :: rangeDown e step fuel (s + step) else []

/-- the indices selected by `seq[start:stop:step]` on a sequence of length `n` (`step ≠ 0`) -/
def sliceIdx (n : Nat) (start stop : Option Int) (step : Int) : List Nat :=
  if 0 < step then rangeUp (sliceStop n stop step) step n (sliceStart n start step)
  else rangeDown (sliceStop n stop step) step n (sliceStart n start step)

/-- `[l[j] for j in idx]` (indices known to be valid are kept, others dropped) -/
def gather {α : Type} (l : List α) (idx : List Nat) : List α := idx.filterMap (l[·]?)

/-- `Monitor.__getitem__(slice)` (l.178-200): deep copy, `_info` emptied, the three lists sliced -/
def Mon.slice (m : Mon R) (start stop : Option Int) (step : Int) : Mon R :=
  let idx := sliceIdx m.len start stop step
  { m with x := gather m.x idx, y := gather m.y idx, id := gather m.id idx, info := [] }

/-! ### list / array indices (`numpy.array(self._x)[y].tolist()`, l.182-185) -/

inductive Shape where
  | sc | vec (n : Nat) | mat (r c : Nat) | ragged
  deriving DecidableEq, Repr

def allLen {α : Type} (l : List (List α)) (c : Nat) : Bool := l.all (·.length == c)

def PV.shape : PV R → Shape
  | .sc _ => .sc
  | .vec l => .vec l.length
  | .mat l => match l with
    | [] => .mat 0 0
    | r :: rs => if allLen rs r.length then .mat (rs.length + 1) r.length else .ragged

/-- `numpy.array(entries)` succeeds: all entries have one rectangular shape -/
def homog (l : List (PV R)) : Bool :=
  match l with
  | [] => true
  | a :: rest => a.shape != .ragged && rest.all (·.shape == a.shape)

inductive Err where
  | index | value | type | attr
  deriving DecidableEq, Repr

def Err.str : Err → String
  | .index => "index" | .value => "value" | .type => "type" | .attr => "attr"

/-- numpy integer-array indexing of the first axis -/
def resolveIdx (n : Nat) (idx : List Int) : Option (List Nat) := idx.mapM (pyIdx n)

/-- numpy boolean-mask indexing of the first axis (mask length must equal `n`) -/
def maskIdx (n : Nat) (mask : List Bool) : Option (List Nat) :=
  if mask.length = n then some ((List.range n).filter (fun j => mask.getD j false)) else none

/-- `Monitor.__getitem__(list | ndarray)`; `sel` resolves the index object against the length -/
def Mon.fancy (m : Mon R) (sel : Nat → Option (List Nat)) : Except Err (Mon R) :=
  if homog m.x = false then .error .value else
  match sel m.len with
  | none => .error .index
  | some idx =>
    if homog m.y = false then .error .value else
    .ok { m with x := gather m.x idx, y := gather m.y idx, id := gather m.id idx, info := [] }

/-! ### `extend`, `prepend`, `+` -/

/-- `Monitor._get_y(monitor)` (l.335-338): the argument's raw costs re-expressed in the receiver's `k` -/
def yFor [Div R] [OfNat R 1] (a b : Mon R) : List (PV R) :=
  match kdiv b.k a.k with
  | none => b.y
  | some n => b.y.map (PV.map (· / n))

/-- `Monitor.extend(monitor)` (l.243-258) -/
def Mon.extend [Div R] [OfNat R 1] (a b : Mon R) : Mon R :=
  { a with x := a.x ++ b.x, y := a.y ++ yFor a b, id := a.id ++ b.id, info := a.info ++ b.info }

/-- `list.insert(i, v)` for `i ≥ 0` (beyond the end appends) -/
def insertAt {α : Type} : List α → Nat → α → List α
  | l, 0, v => v :: l
  | [], _ + 1, v => [v]
  | h :: t, i + 1, v => h :: insertAt t i v

/-- `[l.insert(*i) for i in enumerate(items)]` (l.271-275), `j` = first index -/
def insertAll {α : Type} : List α → Nat → List α → List α
  | l, _, [] => l
  | l, j, v :: vs => insertAll (insertAt l j v) (j + 1) vs

/-- `Monitor.prepend(monitor)` (l.260-275) -/
def Mon.prepend [Div R] [OfNat R 1] (a b : Mon R) : Mon R :=
  { a with x := insertAll a.x 0 b.x, y := insertAll a.y 0 (yFor a b), id := insertAll a.id 0 b.id,
           info := insertAll a.info 0 b.info }

/-- `Monitor.__add__` (l.163-171): `m = copy.deepcopy(self); m.extend(monitor)` -/
def Mon.add [Div R] [OfNat R 1] (a b : Mon R) : Mon R := a.extend b

/-! ### `min` (l.291): `self[self.ay.argmin()]` for scalar costs -/

def PV.scalar? : PV R → Option R
  | .sc v => some v
  | _ => none

/-- `numpy.argmin` of a 1-d array: the first NaN if there is one, else the first minimum.
`go best bestIdx i rest` -/
def argminGo [LT R] [DecidableLT R] [BEq R] : R → Nat → Nat → List R → Nat
  | _, bi, _, [] => bi
  | b, bi, i, v :: vs =>
    if (b != b) = true then bi                                   -- a NaN is never replaced
    else if (v != v) = true ∨ v < b then argminGo v i (i + 1) vs
    else argminGo b bi (i + 1) vs

def argmin [LT R] [DecidableLT R] [BEq R] : List R → Option Nat
  | [] => none
  | v :: vs => some (argminGo v 0 1 vs)

def Mon.min [Div R] [LT R] [DecidableLT R] [BEq R] (m : Mon R) : Except Err (PV R × PV R) :=
  match m.getY.mapM PV.scalar? with
  | none => .error .type
  | some ys =>
    match argmin ys with
    | none => .error .value
    | some j =>
      match m.getItem (j : Int) with
      | some p => .ok p
      | none => .error .index

/-! ### the log file of `LoggingMonitor` (l.462-491) -/

/-- one written record: `(step[, id])`, cost, params -/
structure LogRec (R : Type) where
  step : Nat
  id : Option Int
  y : PV R
  x : PV R

/-- a scalar `x` is written as `"[%s]" % x` -/
def logX : PV R → PV R
  | .sc v => .vec [v]
  | o => o

/-- what `LoggingMonitor.__call__(x, y, id)` (all=True) appends to its file; `m` is the state before the call -/
def Mon.logOf [Mul R] [Div R] (m : Mon R) (x y : PV R) (id : Option Int) : Option (LogRec R) :=
  match m.interval with
  | none => none
  | some n =>
    if n = 0 then none else
    if m.len % n = 0 then            -- `(self._step - 1) % interval == 0`, `_step` = length after the append
      some { step := m.len, id := id, y := cdiv m.k (cmul m.k y), x := logX x }
    else none

/-! ### the text line and `logfile_reader`'s `line.split("   ")` at token level -/

def sp : Char := ' '

/-- `"  %s     %s   %s" % (step, y, x)` -/
def printLine (step y x : List Char) : List Char :=
  [sp, sp] ++ step ++ [sp, sp, sp, sp, sp] ++ y ++ [sp, sp, sp] ++ x

/-- Python `s.split("   ")`: leftmost non-overlapping cuts.  `nsp` = pending spaces (0..2) not yet emitted,
`acc` = current piece reversed -/
def splitGo : Nat → List Char → List Char → List (List Char)
  | nsp, acc, [] => [(List.replicate nsp sp ++ acc).reverse]
  | nsp, acc, c :: t =>
    if c = sp then
      (if nsp = 2 then acc.reverse :: splitGo 0 [] t else splitGo (nsp + 1) acc t)
    else splitGo 0 (c :: (List.replicate nsp sp ++ acc)) t

def split3 (s : List Char) : List (List Char) := splitGo 0 [] s

/-- the three fields `logfile_reader` evaluates: `values[0], values[1], values[2]` -/
def parseLine (s : List Char) : Option (List Char × List Char × List Char) :=
  match split3 s with
  | a :: b :: c :: _ => some (a, b, c)
  | _ => none

/-- scanning `s` with `nsp` pending spaces never completes a `"   "`; result = pending spaces at the end -/
def scan : Nat → List Char → Option Nat
  | nsp, [] => some nsp
  | nsp, c :: t => if c = sp then (if nsp = 2 then none else scan (nsp + 1) t) else scan 0 t

/-- a field that survives the format: non-empty, no leading/trailing space, no three consecutive spaces
(equivalently: scanning it after two spaces never cuts and ends on a non-space) -/
def tokOK (s : List Char) : Bool := s != [] && scan 2 s == some 0

/-- the last field only needs to be free of `"   "` (even after the separator) -/
def tailOK (s : List Char) : Bool := (scan 0 s).isSome

/-! ### parameter files (munge.py) -/

/-- `zip(*rows)` : stops at the shortest row; `zip()` of nothing is empty -/
def heads? {α : Type} : List (List α) → Option (List α)
  | [] => some []
  | [] :: _ => none
  | (h :: _) :: rs => (heads? rs).map (h :: ·)

def zipStarGo {α : Type} : Nat → List (List α) → List (List α)
  | 0, _ => []
  | f + 1, rows =>
    match heads? rows with
    | none => []
    | some hs => hs :: zipStarGo f (rows.map List.tail)

def zipStar {α : Type} (rows : List (List α)) : List (List α) :=
  match rows with
  | [] => []
  | r :: _ => zipStarGo r.length rows

/-- `raw_to_converge` on flat parameter vectors (l.223-231): `[step]` then `list(zip(*[step]))`:
every parameter becomes a 1-tuple -/
def rawToConverge {α : Type} (steps : List (List α)) : List (List (List α)) := steps.map (·.map ([·]))

/-- `converge_to_support` (l.218-221): `[list(i) for i in zip(*steps)]` -/
def convergeToSupport {α : Type} (steps : List (List α)) : List (List α) := zipStar steps

def rawToSupport {α : Type} (steps : List (List α)) : List (List (List α)) :=
  convergeToSupport (rawToConverge steps)

/-- decoding a support-format table back to the trajectory: transpose and unwrap the 1-tuples -/
def supportToRaw {α : Type} (sup : List (List (List α))) : List (List α) := (zipStar sup).map List.flatten

/-- an id entry of the `iter` list: `(i,)` or `(i, id)` with `id` possibly `None` -/
structure Step where
  i : Nat
  id : Option (Option Int)
  deriving DecidableEq, Repr

/-- what `write_raw_file` does with the ids (l.265-269): none written / one value / the list -/
inductive IdsW where
  | absent
  | single (v : Option Int)
  | many (l : List (Option Int))

def idsWritten (ids : List (Option Int)) : IdsW :=
  match ids with
  | [] => .absent
  | a :: _ => if ids.all (· == a) then (match a with | none => .absent | some v => .single (some v)) else .many ids

/-- `_process_ids(ids, n)` (l.163-186) for a list of ids that are not tuples: per-id iteration counters;
`acc` = ids seen so far (reversed order irrelevant: only counted) -/
def countIds : List (Option Int) → List (Option Int) → List Step
  | _, [] => []
  | seen, j :: rest => { i := seen.count j, id := some j } :: countIds (j :: seen) rest

def processIds (w : IdsW) (n : Nat) : Option (List Step) :=
  match w with
  | .absent => if n = 0 then none else some ((List.range n).map (fun i => { i := i, id := none }))
  | .single v => some ((List.range n).map (fun i => { i := i, id := some v }))   -- n = 0 never occurs with a single id
  | .many l =>
    if l.all (· == none) then some (((countIds [] l).map (fun s => { s with id := none })).take n)
    else some ((countIds [] l).take n)

/-- contents of the file written by `write_raw_file(mon)` as `read_raw_file(f, iter=True)` returns them -/
structure RawFile (R : Type) (P : Type) where
  ids : Option (List Step)
  params : P
  cost : List (PV R)

def Mon.writeRaw [Div R] (m : Mon R) : RawFile R (List (PV R)) :=
  { ids := processIds (idsWritten m.id) m.y.length, params := m.x, cost := m.getY }

def PV.vec? : PV R → Option (List R)
  | .vec l => some l
  | _ => none

/-- `write_support_file` / `write_converge_file` (munge.py l.288-330, after fix 2b1798b) build a NEW monitor with
`write_monitor(steps, mon.y, k=mon.k)`: the costs `mon.y` (already divided by `k`) are multiplied by `k` again
(`mon._k(energy, iter)`), and `write_raw_file` reads them through `monitor.y`, i.e. divides by `k` once more.
Over a field this is the recorded cost; at `Float` it is `(((y*k)/k)*k)/k`. -/
def Mon.costViaCopy [Mul R] [Div R] (m : Mon R) : List (PV R) := (m.getY.map (cmul m.k)).map (cdiv m.k)

def Mon.writeSupport [Mul R] [Div R] (m : Mon R) : Option (RawFile R (List (List (List R)))) :=
  match m.x.mapM PV.vec? with
  | none => none
  | some xs => some { ids := processIds (idsWritten m.id) m.y.length, params := rawToSupport xs, cost := m.costViaCopy }

def Mon.writeConverge [Mul R] [Div R] (m : Mon R) : Option (RawFile R (List (List (List R)))) :=
  match m.x.mapM PV.vec? with
  | none => none
  | some xs => some { ids := processIds (idsWritten m.id) m.y.length, params := rawToConverge xs, cost := m.costViaCopy }

/-- `read_history(monitor, iter=True)` (l.54-60, 84): ids through `_process_ids`, params in support format -/
def Mon.readHistory [Div R] (m : Mon R) : Option (RawFile R (List (List (List R)))) :=
  match m.x.mapM PV.vec? with
  | none => none
  | some xs =>
    let ids := match m.id with
      | [] => processIds .absent m.y.length
      | l => processIds (.many l) m.y.length
    some { ids := ids, params := rawToSupport xs, cost := m.getY }

end MysticVerif.Mon
