/-
C12, second layer (no Mathlib; linked into `mvdrv`): the validator's reach extended to

* absolute values - the `absval` pre-pass of `simplify` (symbolic.py l.490-583): every top-level `abs(inner)` is
  replaced by `(inner)` with the condition `inner >= 0`, or by `-(inner)` with the flipped condition `inner <= 0`
  (l.518, l.530 `flip(ii)`), all sign combinations (`itertools.product`, l.526);
* rational relations whose divisor is a product of two single-variable factors `(a*x_i + b)*(c*x_j + d)`:
  `_simplify1` emits the four sign combinations of the two zeros (l.712-743);
* the small string-free cores of symbolic.py modelled literally: `comparator` (l.189-192, the priority table over
  `str.count`), `equals` (l.425-487: which of the two evaluations raised `ZeroDivisionError`, `error=` flag) and the
  flip decision of `_simplify1` (l.738-741).

Generic in the scalar `K` (operations only).
-/
import MysticVerif.Model.Symbolic

namespace MysticVerif.Sym

section
variable {K : Type}

/-! ### absolute values -/

/-- python's `abs` on a scalar -/
def absK [LT K] [Neg K] [OfNat K 0] [DecidableLT K] (a : K) : K := if a < 0 then -a else a

/-- add a form to the left side / numerator of an item -/
def Item.addL [Add K] (it : Item K) (f : Form K) : Item K :=
  match it with
  | .lin ln => .lin ⟨ln.l.add f, ln.cmp, ln.r⟩
  | .rat p q cmp r => .rat (p.add f) q cmp r

/-- the item with the VALUE `d` added to its left side / numerator -/
def Item.satPlus [Add K] [Mul K] [Div K] [OfNat K 0] [LT K] [LE K] (it : Item K) (d : K) (x : Nat → K) : Prop :=
  match it with
  | .lin ln => ln.cmp.holds (ln.l.eval x + d) (ln.r.eval x)
  | .rat p q cmp r => q.eval x ≠ 0 ∧ cmp.holds ((p.eval x + d) / q.eval x) r

/-- `Σ_k c_k * abs(a_k(x))` -/
def absSum [Add K] [Mul K] [Neg K] [OfNat K 0] [LT K] [DecidableLT K] : List (K × Form K) → (Nat → K) → K
  | [], _ => 0
  | t :: ts, x => t.1 * absK (t.2.eval x) + absSum ts x

/-- symbolic.py l.518-533: per `abs(a)` the case `a >= 0` (abs replaced by `+`) and the case `a <= 0`
(`flip` of the condition, abs replaced by `-`); conditions collected in front -/
def absExpand [Add K] [Mul K] [Neg K] [OfNat K 0] : List (K × Form K) → Item K → List (List (Line K) × Item K)
  | [], it => [([], it)]
  | t :: ts, it =>
    (absExpand ts (it.addL (t.2.smul t.1))).map (fun p => ((⟨t.2, .ge, Form.zero⟩ : Line K) :: p.1, p.2)) ++
    (absExpand ts (it.addL (t.2.smul (-t.1)))).map (fun p => ((⟨t.2, .le, Form.zero⟩ : Line K) :: p.1, p.2))

/-! ### product divisors -/

/-- the form `a * x_i + b` -/
def affine1 [OfNat K 0] (a b : K) (i : Nat) : Form K := ⟨List.replicate i 0 ++ [a], b⟩

/-- `(a x_i + b)(c x_j + d)` as a LINEAR form in which the monomial `x_i * x_j` is the extra variable `x_m` -/
def prodForm [Add K] [Mul K] [OfNat K 0] (a b : K) (i : Nat) (c d : K) (j m : Nat) : Form K :=
  ((affine1 (a * c) 0 m).add (affine1 (a * d) 0 i)).add (affine1 (b * c) (b * d) j)

/-- input items of the extended validator -/
inductive XItem (K : Type) where
  /-- `Σ c_k*abs(a_k) + l cmp r`  or  `(Σ c_k*abs(a_k) + p) / q cmp r`  (`ts = []`: the plain item) -/
  | absl (ts : List (K × Form K)) (it : Item K)
  /-- `p / ((a*x_i + b) * (c*x_j + d)) cmp r`; `m` = index standing for the monomial `x_i * x_j` -/
  | rat2 (p : Form K) (a b : K) (i : Nat) (c d : K) (j : Nat) (m : Nat) (cmp : Cmp) (r : K)
  deriving Repr

def XItem.sat [Add K] [Mul K] [Div K] [Neg K] [OfNat K 0] [LT K] [LE K] [DecidableLT K]
    (it : XItem K) (x : Nat → K) : Prop :=
  match it with
  | .absl ts it => it.satPlus (absSum ts x) x
  | .rat2 p a b i c d j _ cmp r =>
    (a * x i + b) * (c * x j + d) ≠ 0 ∧ cmp.holds (p.eval x / ((a * x i + b) * (c * x j + d))) r

/-- the side condition under which the linearised product means the product -/
def XItem.hyp [Mul K] (it : XItem K) (x : Nat → K) : Prop :=
  match it with
  | .absl _ _ => True
  | .rat2 _ _ _ i _ _ j m _ _ => x m = x i * x j

/-- the cases of one extended item.  `rat2`: the four sign combinations of the two factors (the comparator is
flipped when exactly one factor is negative); for `=`/`!=` the single case with both factors non-zero. -/
def expandXItem [Add K] [Mul K] [Neg K] [OfNat K 0] (it : XItem K) : List (List (Line K)) :=
  match it with
  | .absl ts it => (absExpand ts it).flatMap fun p => (expandItem p.2).map fun s => p.1 ++ s
  | .rat2 p a b i c d j m cmp r =>
    let q1 := affine1 a b i
    let q2 := affine1 c d j
    let rQ := (prodForm a b i c d j m).smul r
    if cmp = .eq ∨ cmp = .ne then [[⟨q1, .ne, Form.zero⟩, ⟨q2, .ne, Form.zero⟩, ⟨p, cmp, rQ⟩]]
    else [[⟨q1, .gt, Form.zero⟩, ⟨q2, .gt, Form.zero⟩, ⟨p, cmp, rQ⟩],
          [⟨q1, .gt, Form.zero⟩, ⟨q2, .lt, Form.zero⟩, ⟨p, cmp.flip, rQ⟩],
          [⟨q1, .lt, Form.zero⟩, ⟨q2, .gt, Form.zero⟩, ⟨p, cmp.flip, rQ⟩],
          [⟨q1, .lt, Form.zero⟩, ⟨q2, .lt, Form.zero⟩, ⟨p, cmp, rQ⟩]]

/-- all combinations (`itertools.product`, symbolic.py l.582 for abs and l.783 for the sign cases) -/
def expandX [Add K] [Mul K] [Neg K] [OfNat K 0] : List (XItem K) → List (List (Line K))
  | [] => [[]]
  | it :: rest => (expandXItem it).flatMap fun a => (expandX rest).map fun s => a ++ s

/-- THE EXTENDED VALIDATOR: input items (with abs / product divisors) vs. the returned cases -/
def validateX [Add K] [Sub K] [Mul K] [Div K] [Neg K] [OfNat K 0] [OfNat K 1] [LT K] [LE K]
    [DecidableEq K] [DecidableLT K] [DecidableLE K] (inp : List (XItem K)) (out : List (List (Line K))) : Bool :=
  dnfEquiv ((expandX inp).map canonSys) (out.map canonSys)

end

/-! ### `comparator` (symbolic.py l.189-192) -/

/-- the seven comparator texts -/
inductive CTok where
  | le | lt | ge | gt | ne | eqeq | eq
  deriving DecidableEq, Repr, Inhabited

/-- which of the seven texts occur in the line as SUBSTRINGS (what `equation.count(t)` sees: `<=` contains `<` and `=`) -/
structure Toks where
  le : Bool
  lt : Bool
  ge : Bool
  gt : Bool
  ne : Bool
  eqeq : Bool
  eq : Bool
  deriving DecidableEq, Repr

/-- l.189-192: `'<=' if count('<=') else '<' if count('<') else '>=' if count('>=') else '>' if count('>') else
'!=' if count('!=') else '==' if count('==') else '=' if count('=') else ''` -/
def comparatorOf (t : Toks) : Option CTok :=
  if t.le then some .le else if t.lt then some .lt else if t.ge then some .ge else if t.gt then some .gt
  else if t.ne then some .ne else if t.eqeq then some .eqeq else if t.eq then some .eq else none

/-- the substrings present in a line that contains exactly the one comparator text `c` -/
def CTok.toks : CTok → Toks
  | .le => ⟨true, true, false, false, false, false, true⟩
  | .lt => ⟨false, true, false, false, false, false, false⟩
  | .ge => ⟨false, false, true, true, false, false, true⟩
  | .gt => ⟨false, false, false, true, false, false, false⟩
  | .ne => ⟨false, false, false, false, true, false, true⟩
  | .eqeq => ⟨false, false, false, false, false, true, true⟩
  | .eq => ⟨false, false, false, false, false, false, true⟩

def Toks.or (s t : Toks) : Toks :=
  ⟨s.le || t.le, s.lt || t.lt, s.ge || t.ge, s.gt || t.gt, s.ne || t.ne, s.eqeq || t.eqeq, s.eq || t.eq⟩

def Toks.none : Toks := ⟨false, false, false, false, false, false, false⟩

def CTok.cmp : CTok → Cmp
  | .le => .le | .lt => .lt | .ge => .ge | .gt => .gt | .ne => .ne | .eqeq => .eq | .eq => .eq

/-! ### `equals` (symbolic.py l.425-487) and the flip decision of `_simplify1` (l.738-741) -/

/-- result of `equals`: a Boolean, or the `ZeroDivisionError` re-raised (`error=True`, the default) -/
inductive EqRes where
  | val (b : Bool)
  | zde
  deriving DecidableEq, Repr

/-- l.473-487 (no `variants` needed): `after` is evaluated first, then `before`; `none` = that evaluation raised
ZeroDivisionError.  With `error=False`: both raise -> True; exactly one raises -> False. -/
def equalsM (errors : Bool) (before after : Option Bool) : EqRes :=
  match after, before with
  | some a, some b => .val (b == a)
  | none, none => if errors then .zde else .val true
  | _, _ => if errors then .zde else .val false

/-- l.741: `new = [after] if eq else [after.replace(cmp, flip(cmp))]` -/
def flipDecision (cmp : Cmp) (eq : Bool) : Cmp := if eq then cmp else cmp.flip

end MysticVerif.Sym
