/-
C06 - checkpoint / resume and copy independence, on top of the shared solver model S.

Part A makes explicit WHICH state has to travel with a restart file: for each algorithm an explicit snapshot
record (the fields `SaveSolver` / `dill` / `copy.deepcopy` must carry: population, popEnergy, bestSolution,
bestEnergy, both monitors, the counters and limits of the control loop, Powell's `__internals` / `_direc` /
energy-history override), `save : State -> Snap`, `restore : Snap -> State`, and the run functions whose
suffix is restarted from a restored snapshot.

Part B is the aliasing model of the two cells that the solver object SHARES with the closure of its decorated
objective (`tools.wrap_function`, tools.py l.391-401: `ncalls = [start]` and `eval_monitor`; the solver keeps
`self._fcalls = ncalls` and `self._evalmon` - abstract_solver.py l.905-908): a heap of counter cells and monitor
cells, four pointers per solver object, and the three ways a second solver object is produced
(`_decorate_objective`, one pickle of the whole object graph, `__deepcopy__` as implemented).

No Mathlib imports (linked into `mvdrv`).
-/
import MysticVerif.Model.Solver
import MysticVerif.Model.NelderMead

namespace MysticVerif.Checkpoint
open MysticVerif.Solver

variable {X E R : Type}

/-! ## Part A: snapshots and resumed runs -/

/-! ### differential evolution -/

/-- what a restart file of a DifferentialEvolutionSolver(2) has to carry for `_Step` (differential_evolution.py
l.252-334 / 501-595): `population`, `popEnergy`, the decoupled `_bestSolution` / `_bestEnergy`
(l.283-287), the evaluation monitor and the step monitor -/
structure DESnap (X E : Type) where
  population : List X
  popEnergy : List E
  bestSolution : X
  bestEnergy : E
  evalmon : List (X × E)
  stepmon : List (X × E)
  deriving DecidableEq, Repr

def DESnap.save (s : DE X E) : DESnap X E :=
  { population := s.pop, popEnergy := s.popE, bestSolution := s.best, bestEnergy := s.bestE,
    evalmon := s.log, stepmon := s.stepLog }

def DESnap.restore (p : DESnap X E) : DE X E :=
  { pop := p.population, popE := p.popEnergy, best := p.bestSolution, bestE := p.bestEnergy,
    log := p.evalmon, stepLog := p.stepmon }

/-- a LOSSY restore: the decoupled best is dropped, and read back the way `AbstractSolver.bestSolution` /
`bestEnergy` do when `_bestSolution is None` (abstract_solver.py l.196-214): `population[0]`, `popEnergy[0]` -/
def DESnap.restoreNoBest (p : DESnap X E) (x0 : X) (top : E) : DE X E :=
  { pop := p.population, popE := p.popEnergy, best := p.population.headD x0, bestE := p.popEnergy.headD top,
    log := p.evalmon, stepLog := p.stepmon }

/-- any number of generations with ANY trial vectors; `two` selects DifferentialEvolutionSolver2 -/
def DE.run [LT E] [DecidableLT E] (two : Bool) (o : Obj X E) (trialss : List (List X)) (s : DE X E) : DE X E :=
  trialss.foldl (fun s ts => if two = true then DE.step2 o ts s else DE.step1 o ts s) s

/-! ### Nelder-Mead -/

/-- `population` (the simplex rows), `popEnergy`, both monitors -/
structure NMSnap (R E : Type) where
  population : List (Pt R)
  popEnergy : List E
  evalmon : List (Pt R × E)
  stepmon : List (Pt R × E)
  deriving DecidableEq, Repr

def NMSnap.save (s : NM R E) : NMSnap R E :=
  { population := s.simplex.map Prod.fst, popEnergy := s.simplex.map Prod.snd, evalmon := s.log, stepmon := s.stepLog }

def NMSnap.restore (p : NMSnap R E) : NM R E :=
  { simplex := List.zip p.population p.popEnergy, log := p.evalmon, stepLog := p.stepmon }

/-- `n` iterations of generation >= 2 -/
def NM.run [Add R] [Sub R] [Mul R] [Div R] [LT E] [DecidableLT E] [LE E] [DecidableLE E]
    (o : Obj (Pt R) E) (c : Coef R) (st : Pt R → Pt R) : Nat → NM R E → NM R E
  | 0, s => s
  | n + 1, s => NM.run o c st n (NM.update o c st s).1

/-! ### the control loop -/

/-- the operations of `abstract_solver.py` that touch the counters and flags `Step` reads -/
inductive CtlOp where
  | step (termPre termPost : Bool) (dEvals dGens dStep : Nat)
  | limits (g e : Option Nat) (new : Bool)
  | exit (b : Bool)
  | finalize
  deriving Repr, DecidableEq

def applyOp (c : Ctl) : CtlOp → Ctl
  | .step a b dE dG dS => (c.step a b { dEvals := dE, dGens := dG, dStep := dS }).1
  | .limits g e n => c.setLimits g e n
  | .exit b => { c with earlyExit := b }
  | .finalize => c.finalize

/-- what the op returns to the caller: the message of `Step` and whether `_Step` ran -/
def outOp (c : Ctl) : CtlOp → Option Msg × Bool
  | .step a b dE dG dS => (c.step a b { dEvals := dE, dGens := dG, dStep := dS }).2
  | _ => (none, false)

def runOps (c : Ctl) (ops : List CtlOp) : Ctl := ops.foldl applyOp c

/-- the messages / ran-flags returned along the way -/
def outputs : Ctl → List CtlOp → List (Option Msg × Bool)
  | _, [] => []
  | c, op :: ops => outOp c op :: outputs (applyOp c op) ops

/-- the control fields of a restart file: `len(_stepmon)`, `_fcalls[0]`, `_maxiter`, `_maxfun`, `_EARLYEXIT`,
`_live`, the solver's default scales and (Powell) the deferred-record generation count -/
structure CtlSnap where
  generations : Nat
  evaluations : Nat
  nStepmon : Nat
  maxiter : Lim
  maxfun : Lim
  earlyExit : Bool
  live : Bool
  scaleIter : Nat
  scaleEval : Nat
  powell : Bool
  deriving Repr, DecidableEq

def CtlSnap.save (c : Ctl) : CtlSnap :=
  { generations := c.gens, evaluations := c.evals, nStepmon := c.nstep, maxiter := c.maxiter, maxfun := c.maxfun,
    earlyExit := c.earlyExit, live := c.live, scaleIter := c.scaleIter, scaleEval := c.scaleEval, powell := c.powell }

def CtlSnap.restore (p : CtlSnap) : Ctl :=
  { gens := p.generations, evals := p.evaluations, nstep := p.nStepmon, maxiter := p.maxiter, maxfun := p.maxfun,
    earlyExit := p.earlyExit, live := p.live, scaleIter := p.scaleIter, scaleEval := p.scaleEval, powell := p.powell }

/-! ### Powell: an iteration is two halves, and the periodic dump sits between them

`PowellDirectionalSolver._Step`, generations > 1 (scipy_optimize.py l.687-740):
  first half  (l.688-716): extrapolate from `x`, `x1`, `fx`, `fval`, `bigind`, `delta`, `direc`; store
              `population[0]`, `popEnergy[0]`, `_direc`; `energy_history = None`; `_stepmon(x, fval)`;
              `__save_state()`  <- the periodic dump is written HERE
  second half (l.718-740): line search along every direction, `__internals = [x1, fx, bigind, delta]`
              (with `x1` = the `x` the iteration started from), `population[0]`, `popEnergy[0]`,
              `energy_history = energy_history + [fval]`.
The extrapolation and the line searches are oracles (Brent is not modelled). -/
structure Pw (X E : Type) where
  x : X                    -- population[0]
  fval : E                 -- popEnergy[0]
  x1 : X                   -- __internals[0]
  fx : E                   -- __internals[1]
  bigind : Nat             -- __internals[2]
  delta : E                -- __internals[3]
  direc : List X           -- _direc
  stepmon : List (X × E)
  ehist : Option E         -- energy-history override: `some f` = `_stepmon._y + [f]`, `none` = in sync
  deriving DecidableEq, Repr

/-- oracles: `extr x x1 fx fval bigind delta direc = (x', fval', direc')`, `lines x fval direc = (x', fval', bigind, delta)` -/
structure PwOracle (X E : Type) where
  extr : X → X → E → E → Nat → E → List X → X × E × List X
  lines : X → E → List X → X × E × Nat × E

/-- first half; this is also the state the periodic dump stores (the local `x1 = x.copy()` is NOT in it) -/
def Pw.halfA (q : PwOracle X E) (s : Pw X E) : Pw X E :=
  let r := q.extr s.x s.x1 s.fx s.fval s.bigind s.delta s.direc
  { s with x := r.1, fval := r.2.1, direc := r.2.2, stepmon := s.stepmon ++ [(r.1, r.2.1)], ehist := none }

/-- second half, given the point `xStart` the iteration started from (a local variable of `_Step`) -/
def Pw.halfB (q : PwOracle X E) (xStart : X) (s : Pw X E) : Pw X E :=
  let r := q.lines s.x s.fval s.direc
  { s with x := r.1, fval := r.2.1, x1 := xStart, fx := s.fval, bigind := r.2.2.1, delta := r.2.2.2,
           ehist := some r.2.1 }

/-- one whole `_Step` (generations > 1) -/
def Pw.step (q : PwOracle X E) (s : Pw X E) : Pw X E := Pw.halfB q s.x (Pw.halfA q s)

/-- the periodic dump written during that `_Step` -/
def Pw.periodicDump (q : PwOracle X E) (s : Pw X E) : Pw X E := Pw.halfA q s

def Pw.run (q : PwOracle X E) : Nat → Pw X E → Pw X E
  | 0, s => s
  | n + 1, s => Pw.run q n (Pw.step q s)

/-! ## Part B: the cells shared between a solver object and the closure of its decorated objective -/

/-- counter cells (`[n]` lists) and monitor cells (a monitor = the list of recorded evaluation tags) -/
structure Heap where
  ctr : List Nat
  mon : List (List Nat)
  deriving Repr, DecidableEq

/-- the four pointers of one solver object -/
structure Links where
  solverCtr : Nat      -- `solver._fcalls`
  closureCtr : Nat     -- `ncalls` captured by `function_wrapper`
  solverMon : Nat      -- `solver._evalmon`
  closureMon : Nat     -- `eval_monitor` captured by `function_wrapper`
  deriving Repr, DecidableEq

/-- the solver reads the very cells its objective writes -/
def Links.Linked (l : Links) : Prop := l.solverCtr = l.closureCtr ∧ l.solverMon = l.closureMon

instance (l : Links) : Decidable l.Linked := by unfold Links.Linked; exact inferInstance

/-- all four pointers are allocated -/
def Links.Valid (l : Links) (h : Heap) : Prop :=
  l.solverCtr < h.ctr.length ∧ l.closureCtr < h.ctr.length ∧ l.solverMon < h.mon.length ∧ l.closureMon < h.mon.length

instance (l : Links) (h : Heap) : Decidable (l.Valid h) := by unfold Links.Valid; exact inferInstance

/-- `solver.evaluations` = `self._fcalls[0]` -/
def evaluations (h : Heap) (l : Links) : Nat := h.ctr.getD l.solverCtr 0

/-- the contents of `solver._evalmon` -/
def monitor (h : Heap) (l : Links) : List Nat := h.mon.getD l.solverMon []

/-- the counter the objective itself keeps -/
def hiddenCount (h : Heap) (l : Links) : Nat := h.ctr.getD l.closureCtr 0

/-- one call of the user's cost through the decorated objective:
`ncalls[0] += 1; fval = the_function(x); eval_monitor(x, fval)` -/
def call (h : Heap) (l : Links) (tag : Nat) : Heap :=
  { ctr := h.ctr.set l.closureCtr (h.ctr.getD l.closureCtr 0 + 1),
    mon := h.mon.set l.closureMon (h.mon.getD l.closureMon [] ++ [tag]) }

def calls (h : Heap) (l : Links) : List Nat → Heap
  | [] => h
  | t :: ts => calls (call h l t) l ts

/-- a new solver whose objective has just been decorated for the first time -/
def fresh (h : Heap) : Heap × Links :=
  ({ ctr := h.ctr ++ [0], mon := h.mon ++ [[]] },
   { solverCtr := h.ctr.length, closureCtr := h.ctr.length, solverMon := h.mon.length, closureMon := h.mon.length })

/-- `_decorate_objective`: `self._fcalls, cost = wrap_function(cost, args, self._evalmon, start=self._fcalls[0])`
- a new counter cell starting at the current count, shared by solver and closure; the closure captures the
solver's current monitor -/
def decorate (h : Heap) (l : Links) : Heap × Links :=
  ({ h with ctr := h.ctr ++ [evaluations h l] },
   { l with solverCtr := h.ctr.length, closureCtr := h.ctr.length, closureMon := l.solverMon })

/-- ONE pickle of the whole solver (SaveSolver / LoadSolver, dill.dumps / loads, `dill.copy(solver)`): the memo
copies every distinct cell once, so the copy is graph-isomorphic -/
def pickleCopy (h : Heap) (l : Links) : Heap × Links :=
  let c0 := h.ctr.length
  let m0 := h.mon.length
  let sharedC := decide (l.solverCtr = l.closureCtr)
  let sharedM := decide (l.solverMon = l.closureMon)
  ({ ctr := h.ctr ++ [h.ctr.getD l.solverCtr 0] ++ (if sharedC = true then [] else [h.ctr.getD l.closureCtr 0]),
     mon := h.mon ++ [h.mon.getD l.solverMon []] ++ (if sharedM = true then [] else [h.mon.getD l.closureMon []]) },
   { solverCtr := c0, closureCtr := (if sharedC = true then c0 else c0 + 1),
     solverMon := m0, closureMon := (if sharedM = true then m0 else m0 + 1) })

/-- `AbstractSolver.__deepcopy__` as implemented (abstract_solver.py l.1202-1217): `_fcalls` and `_evalmon` go
through `copy.deepcopy(v, memo)`, `_cost` through a SEPARATE `dill.copy` per tuple element, which has its own
memo: the closure gets its own copies of both cells -/
def deepcopyImpl (h : Heap) (l : Links) : Heap × Links :=
  let c0 := h.ctr.length
  let m0 := h.mon.length
  ({ ctr := h.ctr ++ [h.ctr.getD l.solverCtr 0] ++ [h.ctr.getD l.closureCtr 0],
     mon := h.mon ++ [h.mon.getD l.solverMon []] ++ [h.mon.getD l.closureMon []] },
   { solverCtr := c0, closureCtr := c0 + 1, solverMon := m0, closureMon := m0 + 1 })

/-- `AbstractSolver.__copy__` (abstract_solver.py l.1195-1200): `result.__dict__.update(self.__dict__)` - the copy's
attributes ARE the original's objects: the same counter list, the same monitor, the same decorated objective.  No
cell is allocated; the new solver object has the four pointers of the old one -/
def shallowCopy (h : Heap) (l : Links) : Heap × Links := (h, l)

/-- a `__copy__` that gives the copy a PRIVATE counter list (`result._fcalls = self._fcalls[:]`) while the decorated
objective - shared with the original - keeps the old one.  NOT the code: the hypothesis of the witness
`shallow_copy_private_counter_stops_counting` (what "each copy counts for itself" would break) -/
def shallowCopyPrivateCtr (h : Heap) (l : Links) : Heap × Links :=
  ({ h with ctr := h.ctr ++ [h.ctr.getD l.solverCtr 0] }, { l with solverCtr := h.ctr.length })

/-! ## Part C: solver-private settings handed to `Solve` / `Step` as keywords

`Solve(**kwds)` calls `_process_inputs(kwds)` ONCE and then `Step(**settings)` for every generation with the
`settings` dict it got back (abstract_solver.py l.1169, l.1131); `Step` hands its keywords to `_Step`, which calls
`_process_inputs` again (differential_evolution.py l.245; scipy_optimize.py l.240, l.625).  `_process_inputs` reads
the defaults from fields of the solver, overrides them by the keywords and WRITES THE RESULT BACK to the fields
("sticky"): the fields are what a restart file carries, the `settings` dict lives on the stack of `Solve` only. -/

/-- the stored fields of a DifferentialEvolutionSolver(2): `self.strategy` (a NAME), `self.probability`, `self.scale`
(differential_evolution.py l.168-170) -/
structure DESet (C : Type) where
  strategy : Nat
  probability : C
  scale : C
  deriving DecidableEq, Repr

/-- the keywords that touch them: `strategy` (a function object, identified by its `__name__`), `CrossProbability`,
`ScalingFactor`; `none` = keyword not given -/
structure DEKw (C : Type) where
  strategy : Option Nat := none
  cr : Option C := none
  f : Option C := none
  deriving DecidableEq, Repr

/-- `getattr(mystic.strategy, name, strategy.Best1Bin)` (l.369): the names `< nKnown` are functions of the module
`mystic.strategy`, name 0 is `Best1Bin`; any other name (a user's own strategy function) resolves to `Best1Bin` -/
def resolve (nKnown : Nat) (name : Nat) : Nat := if name < nKnown then name else 0

/-- `DifferentialEvolutionSolver(2)._process_inputs` (differential_evolution.py l.362-380 / l.623-641): returns the
strategy entry of `settings` and the fields afterwards -/
def DESet.process {C : Type} (nKnown : Nat) (s : DESet C) (kw : DEKw C) : Nat × DESet C :=
  let dflt := resolve nKnown s.strategy                 -- l.369  strategy = getattr(strategy, self.strategy, Best1Bin)
  let strat := kw.strategy.getD dflt                    -- l.370-374  settings['strategy'], overridden by kwds
  (strat, { strategy := strat,                          -- l.379  self.strategy = settings['strategy'].__name__
            probability := kw.cr.getD s.probability,    -- l.376
            scale := kw.f.getD s.scale })               -- l.378

/-- NOT the code: `_process_inputs` writing back the LOCAL default (`strategy`, l.369) instead of the entry of
`settings` - the hypothesis of the witness `de_writeback_must_be_the_setting_in_force` -/
def DESet.processLocal {C : Type} (nKnown : Nat) (s : DESet C) (kw : DEKw C) : Nat × DESet C :=
  let dflt := resolve nKnown s.strategy
  (kw.strategy.getD dflt, { strategy := dflt, probability := kw.cr.getD s.probability, scale := kw.f.getD s.scale })

def iter {α : Type} (f : α → α) : Nat → α → α
  | 0, a => a
  | n + 1, a => iter f n (f a)

/-- one `Step(**kw)` of a solver with the rest of its state in `σ`: `_Step` processes the keywords and generates the
trial vectors with the strategy in force and the stored `probability` / `scale` (`gen` is ANY function of them) -/
def deStepKw {C σ : Type} (P : DESet C → DEKw C → Nat × DESet C) (gen : Nat → C → C → σ → σ) (kw : DEKw C)
    (st : DESet C × σ) : DESet C × σ :=
  ((P st.1 kw).2, gen (P st.1 kw).1 (P st.1 kw).2.probability (P st.1 kw).2.scale st.2)

/-- `Solve(**kw)` cut after `n` generations: `_process_inputs(kw)` once, then every `Step` gets the `settings` dict,
whose only solver-private key is `strategy` (`CrossProbability` / `ScalingFactor` are no keys of `settings`) -/
def deSolveKw {C σ : Type} (P : DESet C → DEKw C → Nat × DESet C) (gen : Nat → C → C → σ → σ) (kw : DEKw C) (n : Nat)
    (st : DESet C × σ) : DESet C × σ :=
  iter (deStepKw P gen { strategy := some (P st.1 kw).1 }) n ((P st.1 kw).2, st.2)

/-- Nelder-Mead (`radius`, `adaptive`: scipy_optimize.py l.397-403) and Powell (`xtol`, `imax`: l.786-794): two
stored fields; `settings` = the fields overridden by the keywords; both are written back; both are keys of the
`settings` dict `Solve` hands to every `Step` -/
structure Set2 (A B : Type) where
  a : A
  b : B
  deriving DecidableEq, Repr

structure Kw2 (A B : Type) where
  a : Option A := none
  b : Option B := none
  deriving DecidableEq, Repr

def Set2.process {A B : Type} (s : Set2 A B) (kw : Kw2 A B) : Set2 A B :=
  { a := kw.a.getD s.a, b := kw.b.getD s.b }

def step2Kw {A B σ : Type} (gen : A → B → σ → σ) (kw : Kw2 A B) (st : Set2 A B × σ) : Set2 A B × σ :=
  (st.1.process kw, gen (st.1.process kw).a (st.1.process kw).b st.2)

def solve2Kw {A B σ : Type} (gen : A → B → σ → σ) (kw : Kw2 A B) (n : Nat) (st : Set2 A B × σ) : Set2 A B × σ :=
  iter (step2Kw gen { a := some (st.1.process kw).a, b := some (st.1.process kw).b }) n (st.1.process kw, st.2)

end MysticVerif.Checkpoint
