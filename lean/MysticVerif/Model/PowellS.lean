/-
Powell's direction-set solver INSIDE the shared solver model S: `PowellDirectionalSolver._Step`
(scipy_optimize.py l.608-746) run on the DECORATED objective (`Obj`: constraints nested inside the cost, strict
ranges, penalty, counter + evaluation monitor), i.e. the configuration C01-C04 quantify over.  (`Model/Powell.lean`
is the unconstrained machine compared with the reference implementation for C08.)

The Brent line search `_linesearch_powell(cost, p, xi)` (l.552-562) is an ORACLE: for the k-th search of a run it
says at which points `p + alpha*xi` the decorated cost was called (`pre ++ [y] ++ post`, in call order), which of
them it returns (`y = p + alpha_min*xi`) and the scaled direction `alpha_min*xi`.  Everything else is computed by the
model: every one of those points goes through `Obj.objK` (constraints, box test, user's cost, penalty; logged), the
returned energy is the decorated cost at `y`, and then exactly as in the code

  * direction loop (l.673-683 / l.722-732): `fx2 = fval; fval, x = linesearch(x, direc[i]);`
    `if not (isinf fx2 & isinf fval) and (fx2 - fval) > delta: delta = fx2 - fval; bigind = i;`
    `x = constraints(x)`                                   (the constraints ARE applied to the new point)
  * second half of an iteration (l.687-711): `direc1 = x - x1; x2 = 2*x - x1; x1 = x; fx2 = cost(x2);`
    `if fx > fx2: t = ...; if t < 0: fval, x = linesearch(x, direc1); direc[bigind] = direc[-1]; direc[-1] = direc1`
    (here the constraints are NOT applied to the new point: the line `x = constraints(x)` is commented out), then
    the step record `(x, fval)`, then the next direction loop.

Energies are abstract: the two arithmetic decisions (`gain`: the `delta` update test, `tneg`: Powell's `t < 0` test)
and the difference `fx2 - fval` are parameters (`PwCfg`), instantiated with the code's Float expressions in the
driver.  No Mathlib imports.
-/
import MysticVerif.Model.NelderMead

namespace MysticVerif.PowellS
open MysticVerif.Solver

variable {R E : Type}

/-- what one `_linesearch_powell` call did -/
structure LsRec (R : Type) where
  pre : List (Pt R)     -- points handed to the decorated cost before the returned one, call order
  y : Pt R              -- the returned point `p + alpha_min*xi` (itself one of the evaluated points)
  post : List (Pt R)    -- points evaluated after it
  xi : Pt R             -- `alpha_min * xi`
  deriving Inhabited

/-- the arithmetic on energies the step performs -/
structure PwCfg (R E : Type) where
  /-- `fx2 - fval` -/
  diff : E → E → E
  /-- `not (isinf(fx2) & isinf(fval)) and (fx2 - fval) > delta`, arguments `fx2 fval delta` -/
  gain : E → E → E → Bool
  /-- `fx > fx2` and then `t < 0.0` is decided from `fx fx2 fval delta` -/
  tneg : E → E → E → E → Bool
  zeroE : E
  two : R

structure Pw (R E : Type) where
  x : Pt R                       -- population[0] = bestSolution
  fval : E                       -- popEnergy[0] = bestEnergy
  x1 : Pt R                      -- __internals
  fx : E
  bigind : Nat
  delta : E
  direc : List (Pt R)
  log : List (Pt R × E)          -- evaluation monitor
  stepLog : List (Pt R × E)      -- step monitor
  pending : Bool                 -- `energy_history` carries `fval` of an iteration whose record is deferred
  nls : Nat                      -- number of line searches so far (index into the oracle)
  reqs : List (Pt R × Pt R)      -- (p, xi) of every line search requested
  deriving Inhabited

/-- `energy_history`: the step monitor's energies plus the deferred one -/
def Pw.hist (s : Pw R E) : List E := s.stepLog.map Prod.snd ++ (if s.pending then [s.fval] else [])

/-- call the decorated cost at each point, in order; only the log matters -/
def evalMany (o : Obj (Pt R) E) : List (Pt R) → List (Pt R × E) → List (Pt R × E)
  | [], log => log
  | p :: ps, log => evalMany o ps (o.objK p log).2

/-- one `_linesearch_powell(cost, p, xi)`: returned energy, and the log after all of Brent's calls -/
def lineSearch (o : Obj (Pt R) E) (r : LsRec R) (log : List (Pt R × E)) : E × List (Pt R × E) :=
  let l1 := evalMany o r.pre log
  let e := o.objK r.y l1
  (e.1, evalMany o r.post e.2)

/-- one pass of the direction loop -/
def dirStep (o : Obj (Pt R) E) (c : PwCfg R E) (ls : Nat → Pt R → Pt R → LsRec R) (d : Pt R) (i : Nat) (s : Pw R E) : Pw R E :=
  let r := ls s.nls s.x d
  let e := lineSearch o r s.log
  { s with x := o.K r.y, fval := e.1, log := e.2,
           delta := if c.gain s.fval e.1 s.delta = true then c.diff s.fval e.1 else s.delta,
           bigind := if c.gain s.fval e.1 s.delta = true then i else s.bigind,
           nls := s.nls + 1, reqs := s.reqs ++ [(s.x, d)] }

def dirLoop (o : Obj (Pt R) E) (c : PwCfg R E) (ls : Nat → Pt R → Pt R → LsRec R) : List (Pt R) → Nat → Pw R E → Pw R E
  | [], _, s => s
  | d :: ds, i, s => dirLoop o c ls ds (i + 1) (dirStep o c ls d i s)

/-- `fx = fval; bigind = 0; delta = 0.0; <direction loop>; energy_history = energy_history + [fval]` -/
def sweep (o : Obj (Pt R) E) (c : PwCfg R E) (ls : Nat → Pt R → Pt R → LsRec R) (s : Pw R E) : Pw R E :=
  { dirLoop o c ls s.direc 0 { s with fx := s.fval, bigind := 0, delta := c.zeroE } with pending := true }

/-- generation 0 (l.647-664): `x = constraints(x0); fval = cost(x); stepmon(x, fval)` (no record when `maxiter == 0`) -/
def gen0 (o : Obj (Pt R) E) (c : PwCfg R E) (record : Bool) (x0 : Pt R) (direc : List (Pt R)) : Pw R E :=
  let x := o.K x0
  let e := o.objK x []
  { x := x, fval := e.1, x1 := x0, fx := o.top, bigind := 0, delta := c.zeroE, direc := direc, log := e.2,
    stepLog := if record = true then [(x, e.1)] else [], pending := false, nls := 0, reqs := [] }

/-- generation 1 (l.666-685): `x1 = x.copy()` and the first direction loop -/
def gen1 (o : Obj (Pt R) E) (c : PwCfg R E) (ls : Nat → Pt R → Pt R → LsRec R) (s : Pw R E) : Pw R E :=
  sweep o c ls { s with x1 := s.x }

/-- the second half of the previous iteration (l.687-717), up to and including its step record -/
def extrapolate [Sub R] [Mul R] [LT E] [DecidableLT E] (o : Obj (Pt R) E) (c : PwCfg R E) (ls : Nat → Pt R → Pt R → LsRec R)
    (s : Pw R E) : Pw R E :=
  let direc1 := vsub s.x s.x1
  let x2 := vsub (vscale c.two s.x) s.x1
  let e2 := o.objK x2 s.log
  let s1 := { s with x1 := s.x, log := e2.2 }
  let s2 :=
    if e2.1 < s.fx then
      if c.tneg s.fx e2.1 s.fval s.delta = true then
        let r := ls s.nls s.x direc1
        let e := lineSearch o r e2.2
        let last := s.direc.getLast?.getD []
        { s1 with x := r.y, fval := e.1, log := e.2, nls := s.nls + 1, reqs := s.reqs ++ [(s.x, direc1)],
                  direc := (s.direc.set s.bigind last).set (s.direc.length - 1) r.xi }
      else s1
    else s1
  { s2 with stepLog := s2.stepLog ++ [(s2.x, s2.fval)], pending := false }

/-- generation >= 2: second half of the previous iteration, then the next direction loop -/
def genN [Sub R] [Mul R] [LT E] [DecidableLT E] (o : Obj (Pt R) E) (c : PwCfg R E) (ls : Nat → Pt R → Pt R → LsRec R)
    (s : Pw R E) : Pw R E :=
  sweep o c ls (extrapolate o c ls s)

/-- `n` further `_Step`s after generation 1 -/
def run [Sub R] [Mul R] [LT E] [DecidableLT E] (o : Obj (Pt R) E) (c : PwCfg R E) (ls : Nat → Pt R → Pt R → LsRec R) :
    Nat → Pw R E → Pw R E
  | 0, s => s
  | n + 1, s => run o c ls n (genN o c ls s)

end MysticVerif.PowellS
