/-
Model of the parts of `mystic.monitors` around the record list that Model/Monitor.lean leaves out:

* `Monitor.__getitem__(tuple)` (monitors.py l.186-191): `numpy.array(self._x)[y if nn == nx else y[0]].tolist()` for
  each of `_x`, `_y`, `_id` - numpy multi-axis indexing with ints, slices, integer lists and nested tuples;
* the accessors `get_x / get_y / get_id / get_info` and the `ix / ax / iy / ay` variants (l.279-350);
* `CustomMonitor` (l.587-615, `_genSow.py`): one list per declared field, a call appends to the fields it supplies;
* `all=False` / `best` / `k=True` of `LoggingMonitor.__call__` (l.462-491) and the printing rule of
  `VerboseMonitor.__call__` / `VerboseLoggingMonitor.__call__` (l.391-421, 533-563);
* the measure views `_wts / _pos / wts / pos` of a monitor built with `npts=...` (l.296-324).

Generic in the scalar; no Mathlib (linked into `mvdrv`).
-/
import MysticVerif.Model.Monitor

namespace MysticVerif.Mon

variable {R : Type} {α : Type}

/-! ## tuple indices -/

/-- one component of a tuple index: `3`, `1:4:2`, `[0, 2]`, or a nested tuple of ints `(0, 2)` -/
inductive Sel where
  | int (i : Int)
  | slice (s e : Option Int) (t : Int)
  | list (l : List Int)
  | tup (l : List Int)
  deriving Repr, DecidableEq

/-- `ndarray.tolist()` of the result of an index expression: a nested list of depth 0..3 -/
inductive Arr (α : Type) where
  | d0 (v : α)
  | d1 (l : List α)
  | d2 (l : List (List α))
  | d3 (l : List (List (List α)))
  deriving Repr, DecidableEq

def Arr.depth : Arr α → Nat
  | .d0 _ => 0 | .d1 _ => 1 | .d2 _ => 2 | .d3 _ => 3

/-- length of the first axis -/
def Arr.len : Arr α → Nat
  | .d0 _ => 0 | .d1 l => l.length | .d2 l => l.length | .d3 l => l.length

/-- `a[j]` for a valid position `j` of the first axis -/
def Arr.get : Arr α → Nat → Option (Arr α)
  | .d0 _, _ => none
  | .d1 l, j => l[j]?.map .d0
  | .d2 l, j => l[j]?.map .d1
  | .d3 l, j => l[j]?.map .d2

/-- `a[idx]` for a list of valid positions of the first axis -/
def Arr.gatherRows : Arr α → List Nat → Arr α
  | .d0 v, _ => .d0 v
  | .d1 l, idx => .d1 (gather l idx)
  | .d2 l, idx => .d2 (gather l idx)
  | .d3 l, idx => .d3 (gather l idx)

def PV.mat? : PV R → Option (List (List R))
  | .mat l => some l
  | _ => none

/-- `numpy.array(self._x)`: `none` when the entries do not have one rectangular shape (numpy raises
`ValueError`); an empty list is a 1-d array -/
def toArr (l : List (PV R)) : Option (Arr R) :=
  if homog l = false then none else
  match l with
  | [] => some (.d1 [])
  | .sc _ :: _ => (l.mapM PV.scalar?).map .d1
  | .vec _ :: _ => (l.mapM PV.vec?).map .d2
  | .mat _ :: _ => (l.mapM PV.mat?).map .d3

/-- what one selector picks on an axis of length `n` when it stands inside a FULL index tuple -/
inductive Pick where
  | one (j : Nat)
  | many (idx : List Nat)

def pick (n : Nat) : Sel → Except Err Pick
  | .int i => match pyIdx n i with
    | some j => .ok (.one j)
    | none => .error .index
  | .slice s e t => if t = 0 then .error .value else .ok (.many (sliceIdx n s e t))
  | .list l => match resolveIdx n l with
    | some idx => .ok (.many idx)
    | none => .error .index
  | .tup l => match resolveIdx n l with       -- a tuple inside an index tuple is an integer sequence
    | some idx => .ok (.many idx)
    | none => .error .index

/-- advanced (integer-sequence) selectors -/
def Sel.adv : Sel → Option (List Int)
  | .list l => some l
  | .tup l => some l
  | _ => none

/-- numpy broadcasting of two 1-d index arrays -/
def bcast (I J : List Int) : Option (List (Int × Int)) :=
  if I.length = J.length then some (I.zip J)
  else if I.length = 1 then some (J.map (fun j => (I.headD 0, j)))
  else if J.length = 1 then some (I.map (fun i => (i, J.headD 0)))
  else none

/-- `X[i][j]` with Python index normalisation on an `n x c` table -/
def cell (X : List (List α)) (c : Nat) (p : Int × Int) : Option α :=
  match pyIdx X.length p.1, pyIdx c p.2 with
  | some i, some j => (X[i]?).bind (·[j]?)
  | _, _ => none

/-- a full index `(a,)` on a 1-d array -/
def full1 (l : List α) (a : Sel) : Except Err (Arr α) :=
  match pick l.length a with
  | .error e => .error e
  | .ok (.one j) => match l[j]? with
    | some v => .ok (.d0 v)
    | none => .error .index
  | .ok (.many idx) => .ok (.d1 (gather l idx))

/-- a full index `(a, b)` on a 2-d array with `c` columns: two integer sequences are paired (broadcast),
every other combination is the outer selection rows x columns -/
def full2 (X : List (List α)) (c : Nat) (a b : Sel) : Except Err (Arr α) :=
  match a.adv, b.adv with
  | some I, some J =>
    match bcast I J with
    | none => .error .index
    | some ps => match ps.mapM (cell X c) with
      | some l => .ok (.d1 l)
      | none => .error .index
  | _, _ =>
    match pick X.length a with
    | .error e => .error e
    | .ok pa =>
      match pick c b with
      | .error e => .error e
      | .ok pb =>
        match pa, pb with
        | .one i, .one j => match (X[i]?).bind (·[j]?) with
          | some v => .ok (.d0 v)
          | none => .error .index
        | .one i, .many J => match X[i]? with
          | some r => .ok (.d1 (gather r J))
          | none => .error .index
        | .many I, .one j => .ok (.d1 ((gather X I).filterMap (·[j]?)))
        | .many I, .many J => .ok (.d2 ((gather X I).map (gather · J)))

/-- `a[i0, i1, ...]` with integers only (a nested tuple used as the whole index) -/
def descend : List Int → Arr α → Except Err (Arr α)
  | [], a => .ok a
  | i :: rest, a =>
    match a with
    | .d0 _ => .error .index                          -- too many indices
    | _ =>
      match pyIdx a.len i with
      | none => .error .index
      | some j =>
        match a.get j with
        | none => .error .index
        | some a' => descend rest a'

/-- `a[y[0]]`: the first component of the tuple used as the whole index -/
def first (a : Arr α) : Sel → Except Err (Arr α)
  | .int i => descend [i] a
  | .slice s e t => if t = 0 then .error .value else .ok (a.gatherRows (sliceIdx a.len s e t))
  | .list l => match resolveIdx a.len l with
    | some idx => .ok (a.gatherRows idx)
    | none => .error .index
  | .tup l => descend l a

/-- `arr[y if len(y) == arr.ndim else y[0]]` (l.189-191).  A 3-tuple on a 3-d array is outside the model
(`Err.type`; never generated). -/
def Arr.index (a : Arr α) (sels : List Sel) : Except Err (Arr α) :=
  if sels.length = a.depth then
    match a, sels with
    | .d1 l, [s] => full1 l s
    | .d2 X, [s, t] => full2 X (X.headD []).length s t
    | _, _ => .error .type
  else
    match sels with
    | [] => .error .index
    | s :: _ => first a s

/-- the three lists of the monitor returned by `m[tuple]` (possibly not lists any more) -/
structure TMon (R : Type) where
  x : Arr R
  y : Arr R
  id : Arr (Option Int)

/-- `Monitor.__getitem__(tuple)`: `numpy.ndim` of `_x` / `_y` raises `ValueError` on ragged entries; then the three
index expressions in the order x, y, id.  An id selected as a single element is a Python object: it has
`.tolist()` only when numpy stored the ids as an integer array (no `None` among them) - otherwise
`AttributeError`. -/
def Mon.tuple (m : Mon R) (sels : List Sel) : Except Err (TMon R) :=
  match toArr m.x, toArr m.y with
  | some ax, some ay =>
    match ax.index sels with
    | .error e => .error e
    | .ok x =>
      match ay.index sels with
      | .error e => .error e
      | .ok y =>
        match (Arr.d1 m.id).index sels with
        | .error e => .error e
        | .ok (.d0 v) => if m.id.all Option.isSome then .ok { x := x, y := y, id := .d0 v } else .error .attr
        | .ok i => .ok { x := x, y := y, id := i }
  | _, _ => .error .value

/-! ## accessors -/

/-- `get_x` (l.279) -/
def Mon.getX (m : Mon R) : List (PV R) := m.x
/-- `get_id` (l.282) -/
def Mon.getId (m : Mon R) : List (Option Int) := m.id
/-- `get_info` (l.285) -/
def Mon.getInfo (m : Mon R) : List Nat := m.info

/-- `get_ax` (l.343): `numpy.asarray(self._x)` - needs one rectangular shape -/
def Mon.getAx (m : Mon R) : Except Err (List (PV R)) := if homog m.x then .ok m.x else .error .value

/-- `get_ay` (l.349): `numpy.asarray(self._y) / k` -/
def Mon.getAy [Div R] (m : Mon R) : Except Err (List (PV R)) := if homog m.y then .ok m.getY else .error .value

/-! ## CustomMonitor -/

/-- a generated monitor: one list per declared field, in declaration order -/
structure CMon (V : Type) where
  fields : List (List V)
  deriving Repr, DecidableEq

/-- `try: self._f.append(kwds["f"]) / except: pass` then `try: self._f.append(f) / except: pass` for every
declared field (`_genSow.py` l.27-28, 78-83): the field grows exactly when the call supplies a value for it -/
def appendOpt {V : Type} : List (List V) → List (Option V) → List (List V)
  | [], _ => []
  | f :: fs, [] => f :: fs
  | f :: fs, o :: os => (match o with | some v => f ++ [v] | none => f) :: appendOpt fs os

def CMon.new {V : Type} (nfields : Nat) : CMon V := { fields := List.replicate nfields [] }

def CMon.call {V : Type} (c : CMon V) (vals : List (Option V)) : CMon V := { fields := appendOpt c.fields vals }

def CMon.calls {V : Type} (c : CMon V) (cs : List (List (Option V))) : CMon V := cs.foldl CMon.call c

/-- the property `sow.f` -/
def CMon.field {V : Type} (c : CMon V) (f : Nat) : List V := c.fields.getD f []

/-! ## `all=False`, `best`, `k=True` of the logging / verbose monitors -/

/-- `v[best]` for a recorded sequence (`self._x[-1][best]`); a scalar is returned as it is -/
def PV.at (best : Int) : PV R → Except Err (PV R)
  | .sc v => .ok (.sc v)
  | .vec l => match pyIdx l.length best with
    | some j => match l[j]? with
      | some v => .ok (.sc v)
      | none => .error .index
    | none => .error .index
  | .mat l => match pyIdx l.length best with
    | some j => match l[j]? with
      | some v => .ok (.vec v)
      | none => .error .index
    | none => .error .index

def PV.isSeq : PV R → Bool
  | .sc _ => false
  | _ => true

/-- the value shown for the cost: `self._ik(self._y[-1], k)` or `self._ik(self._y[-1][best], k)`
(`_ik(y, k=True)` returns `y` as stored, i.e. still multiplied by `self.k`) -/
def shownY [Mul R] [Div R] (m : Mon R) (all : Bool) (best : Int) (kflag : Bool) (y : PV R) : Except Err (PV R) :=
  let stored := cmul m.k y
  match (if all = true ∨ y.isSeq = false then Except.ok stored else stored.at best) with
  | .error e => .error e
  | .ok s => .ok (if kflag = true then s else cdiv m.k s)

/-- the value shown for the parameters: `self._x[-1]` or `self._x[-1][best]` -/
def shownX (all : Bool) (best : Int) (x : PV R) : Except Err (PV R) :=
  if all = true ∨ x.isSeq = false then .ok x else x.at best

/-- `LoggingMonitor.__call__(x, y, id, best, k)` with `self._all = all`: the record is appended first (an
`IndexError` of `[best]` leaves it appended); the line is written when `interval` divides the number of
earlier records -/
def Mon.logOfB [Mul R] [Div R] (m : Mon R) (all : Bool) (best : Int) (kflag : Bool) (x y : PV R) (id : Option Int) :
    Except Err (Option (LogRec R)) :=
  match m.interval with
  | none => .ok none
  | some n =>
    if n = 0 then .ok none else
    if m.len % n = 0 then
      match shownY m all best kflag y with
      | .error e => .error e
      | .ok ys =>
        match shownX all best x with
        | .error e => .error e
        | .ok xs => .ok (some { step := m.len, id := id, y := ys, x := logX xs })
    else .ok none

/-- one printed line of a verbose monitor: `Generation <gen> has[ best] <label|fit parameters>: <val>` -/
structure VEv (R : Type) where
  isX : Bool
  gen : Nat
  id : Option Int
  best : Bool
  val : PV R

/-- `interval is not numpy.inf and int((self._step-1) % interval) == 0` (`none` = `numpy.inf`) -/
def hitIv (len : Nat) : Option Nat → Bool
  | none => false
  | some n => n != 0 && len % n == 0

/-- one optional printed line -/
def evPart (hit : Bool) (r : Except Err (PV R)) (mk : PV R → VEv R) : Except Err (List (VEv R)) :=
  if hit = true then
    match r with
    | .ok v => .ok [mk v]
    | .error e => .error e
  else .ok []

/-- what `VerboseMonitor.__call__` prints (l.393-420): the cost every `yint` records, the parameters every
`xint` records (`none` = `numpy.inf` = never); ` best` is shown when `all` is false and the argument is a sequence -/
def Mon.verbOf [Mul R] [Div R] (m : Mon R) (yint xint : Option Nat) (all : Bool) (best : Int) (kflag : Bool)
    (x y : PV R) (id : Option Int) : Except Err (List (VEv R)) :=
  match evPart (hitIv m.len yint) (shownY m all best kflag y)
      (fun v => { isX := false, gen := m.len, id := id, best := (!all && y.isSeq), val := v }) with
  | .error e => .error e
  | .ok ey =>
    match evPart (hitIv m.len xint) (shownX all best x)
        (fun v => { isX := true, gen := m.len, id := id, best := (!all && x.isSeq), val := v }) with
    | .error e => .error e
    | .ok ex => .ok (ey ++ ex)

/-! ## measure views (`npts`) -/

/-- `get_iwts` (l.296-302): for measure `i` with `n` points the columns `indx .. indx + n - 1`,
`indx = 2 * sum(npts[:i])` -/
def iwtsGo : Nat → List Nat → List Nat
  | _, [] => []
  | before, n :: rest => List.range' (2 * before) n ++ iwtsGo (before + n) rest

def iwts (npts : List Nat) : List Nat := iwtsGo 0 npts

/-- `get_ipos` (l.304-310): the columns `indx + npts[0] .. indx + npts[0] + n - 1` - the offset is `npts[0]`
for EVERY measure (the code as it is) -/
def iposGo (n0 : Nat) : Nat → List Nat → List Nat
  | _, [] => []
  | before, n :: rest => List.range' (2 * before + n0) n ++ iposGo n0 (before + n) rest

def ipos (npts : List Nat) : List Nat := iposGo (npts.headD 0) 0 npts

/-- the layout `product_measure.flatten` produces: `[w_0.., x_0.., w_1.., x_1.., ...]`: the positions of measure
`i` start at `indx + npts[i]` -/
def iposLayoutGo : Nat → List Nat → List Nat
  | _, [] => []
  | before, n :: rest => List.range' (2 * before + n) n ++ iposLayoutGo (before + n) rest

def iposLayout (npts : List Nat) : List Nat := iposLayoutGo 0 npts

/-- row-major `reshape(-1, size)` of one row -/
def chunks : Nat → Nat → List α → List (List α)
  | 0, _, _ => []
  | g + 1, size, l => l.take size :: chunks g size (l.drop size)

/-- `numpy.array(self.x)[:, cols]` then `shape = (rows, len(npts), -1)` (l.312-324) -/
def measureView (xs : List (PV R)) (ngroups : Nat) (cols : List Nat) : Except Err (List (List (List R))) :=
  match toArr xs with
  | none => .error .value
  | some (.d2 X) =>
    if cols.all (· < (X.headD []).length) = false then .error .index
    else if ngroups = 0 ∨ cols.length % ngroups ≠ 0 then .error .value
    else .ok (X.map (fun row => chunks ngroups (cols.length / ngroups) (gather row cols)))
  | some _ => .error .index          -- `[:, cols]` on an array that is not 2-d

/-- `Monitor.wts` / `Monitor.pos` for a monitor built with `npts` (`None` -> `None`) -/
def Mon.wtsView (m : Mon R) (npts : Option (List Nat)) : Except Err (Option (List (List (List R)))) :=
  match npts with
  | none => .ok none
  | some p => (measureView m.x p.length (iwts p)).map some

def Mon.posView (m : Mon R) (npts : Option (List Nat)) : Except Err (Option (List (List (List R)))) :=
  match npts with
  | none => .ok none
  | some p => (measureView m.x p.length (ipos p)).map some

end MysticVerif.Mon
