/-
Model of the ARGUMENT SHAPES `mystic.symbolic.generate_penalty` (symbolic.py l.1348-1426) accepts - the same code pattern
as `generate_constraint` (Model/EmittedShape.lean, whose `Nest` is reused):

* `conditions` - one condition function, a list / tuple of them, or any NESTING of lists / tuples. `generate_conditions`
                 returns the PAIR `(inequalities, equalities)` for one text and - l.1204-1205 - a tuple of such pairs (nested
                 like the argument) for a tuple / list of texts                                                  : `Nest`
                 l.1379-1380 `if not list_or_tuple_or_ndarray(conditions): conditions = [conditions]`           : `Nest.top`
                 l.1401      `conditions = list(flatten(conditions))`                                           : `Nest.flatL`
* `ptype`      - `None`, one penalty type, or a (nested) list of penalty types                                  : `PArg`
                 l.1404-1411 `None`: `quadratic_inequality` if `'inequality' in condition.__name__` else
                             `quadratic_equality`, PER CONDITION of the flattening                               : `Kind.default`
                 l.1412-1413 `[ptype]*len(conditions)` (the length AFTER flattening), l.1415 `list(flatten(ptype))` : `ptypeList`
                 l.1420      `for penalty, condition in zip(ptype, conditions)` - `zip` stops at the shorter     : `gpItems`
* `join`       - l.1384-1399: `nc` / `nt` = how many levels of `flatten` reach the full flattening (`Nest.depthL`;
                 `nt = -1` for `None` / one type), every TOP-LEVEL item `c` of `conditions` becomes the member
                 `generate_penalty(c, next(p), k=, h=)` when `nt >= nc` (`p = iter(ptype)`; running out of types is python's
                 RuntimeError) and `generate_penalty(c, ptype, k=, h=)` otherwise                                : `gpMembers`
                 members are combined by `coupler.and_ / or_` (Model/EmittedJoin.penJoin)                       : `gpJoin`
A condition is carried with the KIND its `__name__` states (`inequality` / `equality`), which is what `ptype=None` looks at.
No Mathlib.
-/
import MysticVerif.Model.EmittedShape

namespace MysticVerif.Emitted

/-- the `ptype` argument -/
inductive PArg where
  | none
  | one (p : PType)
  | many (ts : List (Nest PType))
  deriving Repr, Inhabited

/-- what `next(p)` hands to the member of a joined penalty: one type or a (nested) list -/
def PArg.ofNest : Nest PType → PArg
  | .leaf p => .one p
  | .node ts => .many ts

/-- l.1404-1415 over the flattened conditions `cs` -/
def ptypeList {α : Type} (pt : PArg) (cs : List (Kind × α)) : List PType :=
  match pt with
  | .none => cs.map fun c => c.1.default
  | .one p => List.replicate cs.length p
  | .many ts => Nest.flatL ts

/-- the `(penalty, condition)` pairs of the loop l.1420 (`join=None`) -/
def gpItems {α : Type} (conds : Nest (Kind × α)) (pt : PArg) : List (PType × (Kind × α)) :=
  (ptypeList pt (Nest.flatL conds.top)).zip (Nest.flatL conds.top)

/-- l.1384-1391: `nt >= nc` -/
def perMemberP {α : Type} (conds : List (Nest α)) (pt : PArg) : Bool :=
  match pt with
  | .many ts => decide (Nest.depthL conds ≤ Nest.depthL ts)
  | _ => false

/-- members with their own types: `generate_penalty(c, next(p))`; `none` = the iterator ran dry -/
def zipMembersP {α : Type} : List (Nest (Kind × α)) → List (Nest PType) → Option (List (List (PType × (Kind × α))))
  | [], _ => some []
  | _ :: _, [] => none
  | c :: cs, t :: ts => (zipMembersP cs ts).map fun r => gpItems c (PArg.ofNest t) :: r

/-- l.1395-1399: the members handed to `join`, each as its list of `(penalty, condition)` pairs -/
def gpMembers {α : Type} (conds : Nest (Kind × α)) (pt : PArg) : Option (List (List (PType × (Kind × α)))) :=
  match pt with
  | .many ts => if perMemberP conds.top pt = true then zipMembersP conds.top ts
                else some (conds.top.map fun c => gpItems c pt)
  | _ => some (conds.top.map fun c => gpItems c pt)

/-- forget the kind tag: what `penalty` stacks -/
def stackOf {α : Type} (ws : List (PType × (Kind × α))) : List (PType × α) := ws.map fun w => (w.1, w.2.2)

section exec
variable {C R : Type} [Add R] [Sub R] [Mul R] [Div R] [Neg R] [LT R] [DecidableLT R] [BEq R]
  [OfNat R 0] [OfNat R 1]

/-- `generate_penalty(conditions, ptype, k=, h=)(x)` with `join=None`, for every shape of the two arguments -/
def gpShaped (env : Env C R) (k' top : R) (conds : Nest (Kind × Expr C)) (pt : PArg) (x : List R) : R :=
  penalty env k' top (stackOf (gpItems conds pt)) x

/-- `generate_penalty(conditions, ptype, join=coupler.and_/or_, k=, h=)(x)`: outer `none` = generate_penalty itself raised
(no type left for a member), inner `none` = `min()` of no members -/
def gpJoin (env : Env C R) (k' top kj : R) (j : PJoin) (conds : Nest (Kind × Expr C)) (pt : PArg) (x : List R) :
    Option (Option R) :=
  (gpMembers conds pt).map fun ms => penJoin env k' top kj j (ms.map stackOf) x

end exec

end MysticVerif.Emitted
