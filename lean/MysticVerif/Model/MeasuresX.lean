/-
Second deepening of C18: model of
* `measures.py` standard_moment l.345, skewness l.387, kurtosis l.399, expected_variance l.245, expected_std l.260,
  impose_moment l.486, impose_product l.1818;
* `distance.py` absolute_distance l.41 with its SHAPE LOGIC (dimension promotion `dmin`, `pair`, the transposes and
  `newaxis` slices, numpy broadcasting), chebyshev l.115, hamming l.138, minkowski l.161 (every natural `p`, `p = 0`,
  `p = inf`, the overflow fall-back to the infinity norm), euclidean l.193, manhattan l.215 with `axis=`.

Arrays are modelled as `NArr`: a shape and an index function (`get [i, j, ...]`); the numpy operations the code uses
(`.T`, `x[newaxis]`, `x.T[:, :, None]`, `x'.T[:, None]`, broadcasting of a binary operation, reduction along an axis
or over everything) are defined ONCE on that representation, and `absolute_distance` is the code line by line.
No Mathlib imports: linked into `mvdrv`.
-/
import MysticVerif.Model.Measures

namespace MysticVerif.Meas

section
variable {R : Type} [Add R] [Sub R] [Mul R] [Div R] [Neg R] [LT R] [DecidableLT R] [LE R] [DecidableLE R]
  [BEq R] [OfNat R 0] [OfNat R 1] [OfNat R 2] [NatCast R]

/-! ### standardised moments (measures.py l.345-409) and expected variance / std (l.245-273) -/

/-- measures.py l.345 `standard_moment(samples, weights=None, order=1, tol=0)`:
`moment(samples, weights, order, tol)/std(samples, weights)**order`, `1.0` for order 2 -/
def standardMoment (C : Consts R) (xs : List R) (ws : Option (List R)) (order : Nat) (tol : R) : R :=
  if order = 2 then 1                                                      -- l.359
  else moment C xs ws order tol / powN (std C xs ws) order                  -- l.360

/-- measures.py l.387 `skewness` -/
def skewness (C : Consts R) (xs : List R) (ws : Option (List R)) : R := standardMoment C xs ws 3 0
/-- measures.py l.399 `kurtosis` -/
def kurtosis (C : Consts R) (xs : List R) (ws : Option (List R)) : R := standardMoment C xs ws 4 0

/-- measures.py l.245 `expected_variance(f, samples, weights=None, tol=0.0)` -/
def expectedVariance {X : Type} (C : Consts R) (f : X → R) (xs : List X) (ws : Option (List R)) (tol : R) : R :=
  expectedMoment C f xs ws 2 tol
/-- measures.py l.260 `expected_std` -/
def expectedStd {X : Type} (C : Consts R) (f : X → R) (xs : List X) (ws : Option (List R)) (tol : R) : R :=
  C.sqrt (expectedVariance C f xs ws tol)

/-! ### impose_moment (measures.py l.486) -/

/-- `[nan]*len(samples)` -/
def nans (C : Consts R) (xs : List R) : List R := List.replicate xs.length C.nan

/-- `max(samples) + min(samples) - samples` (l.542; builtin max / min over the array) -/
def flipSamples (xs : List R) : List R :=
  match xs with
  | [] => []
  | x :: t => xs.map fun y => (pymaxFrom x t + pyminFrom x t) - y

/-- l.520-521: `if skew is None: skew = order%2`; `if skew: samples = [i**2 for i in samples]` -/
def momentSamples (skew : Option Bool) (order : Nat) (xs : List R) : List R :=
  if (match skew with
      | none => decide (order % 2 = 1)
      | some b => b) = true then xs.map (fun i => i * i) else xs

/-- measures.py l.486 `impose_moment(m, samples, weights=None, order=1, tol=0, skew=None)` -/
def imposeMoment (C : Consts R) (m : R) (xs : List R) (ws : Option (List R)) (order : Nat) (tol : R)
    (skew : Option Bool) : List R :=
  if order = 0 then (if m == 1 then xs else nans C xs)                     -- l.506-510
  else if order = 1 then (if truthy m = true then nans C xs else xs)       -- l.511-515
  else if order % 2 = 0 ∧ m < 0 then nans C xs                             -- l.516-518
  else if truthy (moment C (momentSamples skew order xs) ws order tol) = true then       -- l.522-523
    -- l.533 fact = float(v)/sv; l.535 flip when the order is odd and fact < 0; l.538 scale = power(abs(fact), 1./order)
    imposeMean C (mean C xs ws 0)
      ((if (decide (order % 2 = 1) && decide (m / moment C (momentSamples skew order xs) ws order tol < 0)) = true
          then flipSamples (momentSamples skew order xs) else momentSamples skew order xs).map
        (· * C.root order (absR (m / moment C (momentSamples skew order xs) ws order tol)))) ws   -- l.542-545
  else if order % 2 = 0 then List.replicate xs.length (mean C xs ws 0)     -- l.524-525
  else if truthy m = true then nans C xs                                   -- l.529-530
  else momentSamples skew order xs                                         -- l.526-527

/-! ### impose_product (measures.py l.1818) -/

/-- `numpy.prod` : left fold from `1` -/
def lprod (l : List R) : R := l.foldl (· * ·) 1

/-- measures.py l.1818 `impose_product(mass, weights, zsum=False, zmass=1.0)` (the `ZeroDivisionError` exits
`1./n` with `n = 0` are preconditions checked by the driver) -/
def imposeProduct (C : Consts R) (mass : R) (ws : List R) (zsum : Bool) (zmass : R) : List R :=
  if truthy (lprod ws) = true then                                          -- l.1831
    if truthy mass = true then                                              -- l.1834
      if lprod ws / mass < 0 then
        ws.map fun x => -x / C.root ws.length (-(lprod ws) / mass)          -- l.1836
      else ws.map fun x => x / C.root ws.length (lprod ws / mass)           -- l.1837
    else if zsum = true then
      -- l.1841-1848: p, weights[-1] = weights[-1], 0.0; w = w/p; n = n-1; mass = zmass
      if 0 ≤ lprod ws / ws.getLastD 0 / zmass then
        (ws.dropLast.map fun x => x / C.root (ws.length - 1) (lprod ws / ws.getLastD 0 / zmass)) ++ [0]
      else
        (ws.dropLast.map fun x => -x / C.root (ws.length - 1) (-(lprod ws / ws.getLastD 0) / zmass)) ++ [0]
    else ws.map (· * 0)                                                     -- l.1840
  else ws.map (· * C.inf)                                                   -- l.1833

/-! ### numpy arrays as shape + index function -/

structure NArr (R : Type) where
  shape : List Nat
  get : List Nat → R

namespace NArr

def ndim (a : NArr R) : Nat := a.shape.length

/-- `a.T` : reverse the axes -/
def T (a : NArr R) : NArr R := ⟨a.shape.reverse, fun ix => a.get ix.reverse⟩

/-- `a[newaxis]` : a new leading axis of length 1 -/
def newaxis0 (a : NArr R) : NArr R := ⟨1 :: a.shape, fun ix => a.get ix.tail⟩

/-- `a[(slice(None),)*k + (None,)]` : a new axis of length 1 at position `k` (`k <= ndim`) -/
def newaxisAt (k : Nat) (a : NArr R) : NArr R :=
  ⟨a.shape.take k ++ 1 :: a.shape.drop k, fun ix => a.get (ix.take k ++ ix.drop (k + 1))⟩

/-- `while len(x.shape) < k: x = x[newaxis]` (distance.py l.64-65) -/
def promote (k : Nat) (a : NArr R) : NArr R :=
  (List.range (k - a.ndim)).foldl (fun b _ => b.newaxis0) a

/-- elementwise map -/
def map {S : Type} (f : R → S) (a : NArr R) : NArr S := ⟨a.shape, fun ix => f (a.get ix)⟩

end NArr

/-- numpy broadcasting of two axis lengths; `none` = `ValueError: operands could not be broadcast` -/
def bdim (a b : Nat) : Option Nat :=
  if a = b then some a else if b = 1 then some a else if a = 1 then some b else none

/-- numpy broadcasting of two shapes (given reversed, i.e. right aligned) -/
def bshapeRev : List Nat → List Nat → Option (List Nat)
  | [], l => some l
  | l, [] => some l
  | a :: s, b :: t => (bdim a b).bind fun c => (bshapeRev s t).map (c :: ·)

def bshape (s t : List Nat) : Option (List Nat) := (bshapeRev s.reverse t.reverse).map List.reverse

/-- the index into an operand of shape `s` for the broadcast index `ix` (`ix.length >= s.length`) -/
def bindex (s : List Nat) (ix : List Nat) : List Nat :=
  List.zipWith (fun d i => if d = 1 then 0 else i) s (ix.drop (ix.length - s.length))

/-- `f(a, b)` with broadcasting -/
def bzip (f : R → R → R) (a b : NArr R) : Option (NArr R) :=
  (bshape a.shape b.shape).map fun s => ⟨s, fun ix => f (a.get (bindex a.shape ix)) (b.get (bindex b.shape ix))⟩

/-- all indices of a shape in row-major (C) order -/
def allIdx : List Nat → List (List Nat)
  | [] => [[]]
  | d :: s => (List.range d).flatMap fun i => (allIdx s).map (i :: ·)

/-- the values in row-major order (`a.ravel()`) -/
def NArr.ravel (a : NArr R) : List R := (allIdx a.shape).map a.get

/-- `len(weights)+i if i<0 else i` for an axis; `none` = `AxisError` -/
def normAxis (nd : Nat) (ax : Int) : Option Nat :=
  if 0 ≤ ax then (if ax < nd then some ax.toNat else none)
  else (if 0 ≤ (nd : Int) + ax then some ((nd : Int) + ax).toNat else none)

/-- the `axis=` argument of a reduction of an array with `nd` dimensions: `some none` = reduce over everything
(`axis=None`, and numpy's legacy `axis=0 / -1` on a 0-d array), `none` = `AxisError` -/
def resolveAxis (nd : Nat) (axis : Option Int) : Option (Option Nat) :=
  match axis with
  | none => some none
  | some ax => if nd = 0 then (if ax = 0 ∨ ax = -1 then some none else none) else (normAxis nd ax).map some

/-- the values along axis `ax` at the reduced index `ix` -/
def lane (a : NArr R) (ax : Nat) (ix : List Nat) : List R :=
  (List.range (a.shape.getD ax 0)).map fun t => a.get (ix.take ax ++ t :: ix.drop ax)

/-- reduction of an array with the list operation `op`: over everything (`axis=None`) or along one axis -/
def reduceWith (op : List R → R) (a : NArr R) (axis : Option Nat) : NArr R :=
  match axis with
  | none => ⟨[], fun _ => op a.ravel⟩
  | some ax => ⟨a.shape.eraseIdx ax, fun ix => op (lane a ax ix)⟩

/-! ### distance.py -/

/-- distance.py l.41 `absolute_distance(x, xp, pair, dmin)` (`xp=None` is `xp = x`, done by the caller);
`none` = the broadcast `ValueError` -/
def absoluteDistance (x xp : NArr R) (pair : Bool) (dmin : Nat) : Option (NArr R) :=
  let k := max (max x.ndim xp.ndim) dmin                                    -- l.63
  let x' := x.promote k                                                     -- l.64
  let xp' := xp.promote k                                                   -- l.65
  if pair = true then
    (bzip (fun a b => absR (a - b)) x'.T xp'.T).map NArr.T                  -- l.68
  else
    -- l.69-71: x.T[(slice(None),)*k + (None,)] - xp.T[(slice(None),)*max(0,k-1) + (None,)]
    bzip (fun a b => absR (a - b)) (x'.T.newaxisAt k) (xp'.T.newaxisAt (k - 1))

/-- numpy `max` of two numbers (a NaN wins) -/
def npmax2 (m x : R) : R := if (m == m) = false then m else if (x == x) = false then x else if m < x then x else m

/-- `ndarray.max` of a non-empty lane -/
def npmaxL : List R → R
  | [] => 0
  | x :: t => t.foldl npmax2 x

/-- `d.astype(bool).sum()` -/
def countNZ (l : List R) : R := ((l.filter truthy).length : R)

/-- result of a metric: an array, or the Python exception -/
inductive DRes (R : Type) where
  | ok (a : NArr R)
  | errValue      -- broadcast error, or `max` of an empty lane
  | errAxis       -- numpy AxisError
  | errZeroDiv    -- `1./p` with `p = 0`

/-- is the reduction over an empty lane (then `max` raises `ValueError: zero-size array to reduction operation maximum
which has no identity`): numpy raises whenever the reduced axis has length 0 (even when the result is empty too), and
for `axis=None` whenever the array is empty -/
def emptyLane (a : NArr R) (axis : Option Nat) : Bool :=
  match axis with
  | none => a.ravel.isEmpty
  | some ax => a.shape.getD ax 0 == 0

/-- `d.max(axis=axis).astype(float)` -/
def maxReduce (d : NArr R) (axis : Option Int) : DRes R :=
  match resolveAxis d.ndim axis with
  | none => .errAxis
  | some k => if emptyLane d k then .errValue else .ok (reduceWith npmaxL d k)

/-- distance.py l.115 `chebyshev(x, xp, pair, dmin, axis)` -/
def chebyshevA (x xp : NArr R) (pair : Bool) (dmin : Nat) (axis : Option Int) : DRes R :=
  match absoluteDistance x xp pair dmin with
  | none => .errValue
  | some d => maxReduce d axis

/-- distance.py l.138 `hamming(x, xp, pair, dmin, axis)` -/
def hammingA (x xp : NArr R) (pair : Bool) (dmin : Nat) (axis : Option Int) : DRes R :=
  match absoluteDistance x xp pair dmin with
  | none => .errValue
  | some d =>
    match resolveAxis d.ndim axis with
    | none => .errAxis
    | some k => .ok (reduceWith countNZ d k)

/-- the `FloatingPointError` of l.184-187 (`over='raise'`): a finite distance whose power is not finite, or a
non-finite sum of finite powers -/
def overflowed (fin : R → Bool) (d t s : NArr R) : Bool :=
  (List.zipWith (fun a b => fin a && !fin b) d.ravel t.ravel).any id ||
  (t.ravel.all fin && !s.ravel.all fin)

/-- distance.py l.161 `minkowski(x, xp, pair, dmin, p, axis)` for a natural `p` (`p = inf` is `chebyshevA`) -/
def minkowskiA (C : Consts R) (fin : R → Bool) (x xp : NArr R) (pair : Bool) (dmin : Nat) (p : Nat)
    (axis : Option Int) : DRes R :=
  match absoluteDistance x xp pair dmin with
  | none => .errValue
  | some d =>
    let t := d.map (powN · p)                                               -- l.186 `d**p`
    match resolveAxis d.ndim axis with
    | none => .errAxis
    | some k =>
      let s := reduceWith lsum t k                                          -- `.sum(axis=axis)`
      if p = 0 then .errZeroDiv                                             -- `1./p`
      else if overflowed fin d t s = true then maxReduce d axis             -- l.187-188
      else .ok (s.map (C.root p))                                           -- `**(1./p)`

/-! ### `Lnorm` with its fall-back (distance.py l.32-36), third deepening -/

/-- the `FloatingPointError` of `Lnorm` l.32-35 (`seterr(over='raise', invalid='raise')`): a finite weight whose power
is not finite, or a non-finite sum of finite powers.  UNDERFLOW is not among the raised conditions: a power that
vanishes or becomes denormal is summed as it is. -/
def lnormOverflowed (fin : R → Bool) (ws : List R) (p : Nat) : Bool :=
  (List.zipWith (fun a b => fin a && !fin b) ws (ws.map (powN · p))).any id ||
  ((ws.map (powN · p)).all fin && !fin (lsum (ws.map fun x => absR (powN x p))))

/-- distance.py l.13 `Lnorm(weights, p)` for a natural `p`, `axis=None`, with the fall-back of l.35-36
(`except FloatingPointError: w = max(abs(weights))`) -/
def lnormA (C : Consts R) (fin : R → Bool) (ws : List R) (p : Nat) : R :=
  if p = 0 then lnorm C ws 0                                                -- l.26-27
  else if lnormOverflowed fin ws p = true then lnormInf ws                  -- l.35-36
  else lnorm C ws p                                                         -- l.34

end
end MysticVerif.Meas
