/-
Model of the ARGUMENT SHAPES `mystic.symbolic.generate_constraint` (symbolic.py l.1429-1523) accepts, on top of the
composition modes of Model/EmittedJoin.lean:

* `conditions` - one solver function, a list / tuple of them, or any NESTING of lists / tuples (what
                 `generate_solvers` returns for a tuple of constraint texts, l.1295-1296: a tuple of tuples): `Nest`.
                 l.1481-1482 `if not list_or_tuple_or_ndarray(conditions): conditions = [conditions]`          : `Nest.top`
                 l.1503      `conditions = list(flatten(conditions))` (tools.py l.265-292)                      : `Nest.flatL`
* `ctype`      - `None`, one coupler, or a (nested) list of couplers                                           : `CArg`
                 l.1506-1512 `[inner]*len(conditions)` / `[ctype]*len(conditions)` / `list(flatten(ctype))`,
                 the length being taken AFTER `conditions` was flattened                                        : `ctypeList`
                 l.1517      `for wrapper, condition in zip(ctype, conditions)` - `zip` stops at the shorter    : `gcItems`
* `join`       - l.1486-1501: `nc` / `nt` = how many levels of `flatten` reach the full flattening
                 (`Nest.depthL`; `nt = -1` for `None` / one coupler), every TOP-LEVEL item `c` of `conditions` becomes the
                 member `generate_constraint(c, next(p))` when `nt >= nc` (`p = iter(ctype)`; running out of couplers
                 is python's RuntimeError) and `generate_constraint(c, ctype)` otherwise                        : `gcMembers`
                 members are combined by `constraints.and_ / or_` (Model/Combinators.lean)                      : `joinAndG`, `joinOrG`
No Mathlib.
-/
import MysticVerif.Model.EmittedJoin

namespace MysticVerif.Emitted

/-- a python object that is either an item or a list / tuple of such objects -/
inductive Nest (α : Type) where
  | leaf (a : α)
  | node (ts : List (Nest α))
  deriving Repr, Inhabited

namespace Nest
variable {α β : Type}

mutual
/-- `flatten([t])` -/
def flat : Nest α → List α
  | .leaf a => [a]
  | .node ts => flatL ts
/-- `list(flatten(ts))` (tools.py l.287-292: expand every list / tuple item, depth first, left to right) -/
def flatL : List (Nest α) → List α
  | [] => []
  | t :: ts => flat t ++ flatL ts
end

mutual
/-- levels of nesting inside an item: `0` for a function, `1 + ..` for a list / tuple (an EMPTY list counts one level) -/
def depth : Nest α → Nat
  | .leaf _ => 0
  | .node ts => depthL ts + 1
/-- the least `n` with `tuple(flatten(ts, n)) == tuple(flatten(ts))` (the `while` loops l.1490-1493): `flatten(ts, n)`
still holds a list object exactly when some item is nested deeper than `n`, and a list never equals a function -/
def depthL : List (Nest α) → Nat
  | [] => 0
  | t :: ts => Nat.max (depth t) (depthL ts)
end

mutual
def map (f : α → β) : Nest α → Nest β
  | .leaf a => .leaf (f a)
  | .node ts => .node (mapL f ts)
def mapL (f : α → β) : List (Nest α) → List (Nest β)
  | [] => []
  | t :: ts => map f t :: mapL f ts
end

/-- l.1481-1482: a single function is wrapped into a one-element list, a list / tuple is taken as it is -/
def top : Nest α → List (Nest α)
  | .leaf a => [.leaf a]
  | .node ts => ts

end Nest

/-- the `ctype` argument -/
inductive CArg where
  | none
  | one (c : CType)
  | many (ts : List (Nest CType))
  deriving Repr, Inhabited

/-- what `next(p)` hands to the member of a joined constraint: one coupler or a (nested) list -/
def CArg.ofNest : Nest CType → CArg
  | .leaf c => .one c
  | .node ts => .many ts

/-- l.1506-1512, `n = len(conditions)` after flattening -/
def ctypeList (ct : CArg) (n : Nat) : List CType :=
  match ct with
  | .none => List.replicate n .inner
  | .one c => List.replicate n c
  | .many ts => Nest.flatL ts

/-- the `(wrapper, condition)` pairs of the loop l.1517 (`join=None`) -/
def gcItems {α : Type} (conds : Nest α) (ct : CArg) : List (CType × α) :=
  (ctypeList ct (Nest.flatL conds.top).length).zip (Nest.flatL conds.top)

/-- l.1486-1493: `nt >= nc` -/
def perMember {α : Type} (conds : List (Nest α)) (ct : CArg) : Bool :=
  match ct with
  | .many ts => decide (Nest.depthL conds ≤ Nest.depthL ts)
  | _ => false

/-- members with their own couplers: `generate_constraint(c, next(p))`; `none` = the iterator ran dry -/
def zipMembers {α : Type} : List (Nest α) → List (Nest CType) → Option (List (List (CType × α)))
  | [], _ => some []
  | _ :: _, [] => none
  | c :: cs, t :: ts => (zipMembers cs ts).map fun r => gcItems c (CArg.ofNest t) :: r

/-- l.1497-1501: the members handed to `join`, each as its list of `(wrapper, condition)` pairs -/
def gcMembers {α : Type} (conds : Nest α) (ct : CArg) : Option (List (List (CType × α))) :=
  match ct with
  | .many ts => if perMember conds.top ct = true then zipMembers conds.top ts
                else some (conds.top.map fun c => gcItems c ct)
  | _ => some (conds.top.map fun c => gcItems c ct)

section exec
variable {C R : Type} [Add R] [Sub R] [Mul R] [Div R] [Neg R] [LT R] [DecidableLT R] [BEq R]
  [OfNat R 0] [OfNat R 1]

/-- `generate_constraint(conditions, ctype)` with `join=None`, for every shape of the two arguments -/
def gcShaped (env : Env C R) (conds : Nest (Assign C)) (ct : CArg) (x : List R) : List R :=
  compose env (gcItems conds ct) x

def gcShaped? (env : Env C R) (conds : Nest (Assign C)) (ct : CArg) (x : List R) : Option (List R) :=
  compose? env (gcItems conds ct) x

/-- member `i` of a joined constraint: the composition of its group (`none`: a statement raised) -/
def gmember (env : Env C R) (ms : List (List (CType × Assign C))) (i : Nat) (x : List R) : Option (List R) :=
  match ms[i]? with
  | some ws => compose? env ws x
  | none => some x

/-- `generate_constraint(conditions, ctype, join=constraints.and_)` over the members `ms` -/
def joinAndG (env : Env C R) (ms : List (List (CType × Assign C))) (x : List R) (draws : List (List R)) :
    Comb.Res (List R) × Comb.Stats :=
  Comb.and_ (gmember env ms) (fun d _ => d) ms.length (100 * ms.length) x draws

/-- `generate_constraint(conditions, ctype, join=constraints.or_)` over the members `ms` -/
def joinOrG (env : Env C R) (ms : List (List (CType × Assign C))) (x : List R) (draws : List Nat) :
    Comb.Res (List R) × Comb.Stats :=
  Comb.or_ (gmember env ms) id ms.length (100 * ms.length) x draws

end exec

end MysticVerif.Emitted
