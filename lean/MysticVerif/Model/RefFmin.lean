/-
`refFmin`: a transcription of the in-repo reference `mystic/_scipy060optimize.py` `fmin` (l.98-304), the routine
`NelderMeadSimplexSolver` says it is "adapted from", and `mysticFmin`: what `scipy_optimize.fmin` makes the staged
step machine of Model/NelderMead.lean do (`Solve` = `Step` until `Terminated`, scipy_optimize.py l.432-548,
abstract_solver.py l.666-714, l.1062-1144) on an unconstrained, unbounded, unpenalised problem.

Both are written over the same vertex arithmetic (`reflectPt`, `expandPt`, ... of Model/NelderMead.lean), an
arbitrary energy comparison, and two oracles that the two programs compute by the same expressions:
  * `mkVal x0`  - the displaced coordinates of the initial simplex
                  (reference l.194-201: `(1+nonzdelt)*y[k]` or `zdelt`; mystic l.136-137: `x0*(1+radius)`,
                   zeros replaced by `radius**2 * 0.1`);
  * `conv sim`  - the convergence test on the sorted simplex (reference l.215-216 =
                  `CandidateRelativeTolerance`, termination.py l.261-262).
The simplex is a list of (vertex, energy) pairs: both programs apply ONE permutation (`numpy.argsort(fsim)`) to
`sim` and `fsim`.  No Mathlib imports.
-/
import MysticVerif.Model.NelderMead

namespace MysticVerif.Solver

variable {R E : Type}

/-- `(xopt = sim[0], fopt, iterations, funcalls, warnflag)` and the final simplex -/
structure FminOut (R E : Type) where
  sim : List (Pt R × E)
  iterations : Nat
  funcalls : Nat
  warnflag : Nat

/-- l.278-287 / scipy_optimize.py l.534-537: `if fcalls >= maxfun: 1 elif iterations >= maxiter: 2 else 0` -/
def warnFlag (funcalls iterations maxfun maxiter : Nat) : Nat :=
  if maxfun ≤ funcalls then 1 else if maxiter ≤ iterations then 2 else 0

/-! ### the reference -/

/-- l.196-205: `y = x0.copy(); y[k] = val[k]; sim[k+1] = y; fsim[k+1] = func(y)` -/
def refRows (f : Pt R → E) (x0 : Pt R) : List R → Nat → List (Pt R × E)
  | [], _ => []
  | v :: vs, k => (x0.set k v, f (x0.set k v)) :: refRows f x0 vs (k + 1)

/-- l.260-263: `for j in one2np1: sim[j] = sim[0] + sigma*(sim[j] - sim[0]); fsim[j] = func(sim[j])` -/
def refShrink [Add R] [Sub R] [Mul R] (f : Pt R → E) (c : Coef R) (x0 : Pt R) : List (Pt R × E) → List (Pt R × E)
  | [] => []
  | (xj, _) :: rest => (shrinkPt c x0 xj, f (shrinkPt c x0 xj)) :: refShrink f c x0 rest

/-- l.219-263, one pass of the loop body before the sort: new simplex and the number of `func` calls made -/
def refCore [Add R] [Sub R] [Mul R] [Div R] [LT E] [DecidableLT E] [LE E] [DecidableLE E]
    (f : Pt R → E) (c : Coef R) (x0 : Pt R) (f0 : E) (tl : List (Pt R × E)) (xw : Pt R) (fw fsw : E) :
    List (Pt R × E) × Nat :=
  let sx0 := (x0, f0) :: tl
  let xbar := vdiv (vsumRows (sx0.dropLast.map Prod.fst)) c.n      -- numpy.add.reduce(sim[:-1],0) / N
  let xr := reflectPt c xbar xw                                     -- (1+rho)*xbar - rho*sim[-1]
  let fxr := f xr
  if fxr < f0 then
    let xe := expandPt c xbar xw
    let fxe := f xe
    if fxe < fxr then (sx0.dropLast ++ [(xe, fxe)], 2)
    else (sx0.dropLast ++ [(xr, fxr)], 2)
  else if fxr < fsw then (sx0.dropLast ++ [(xr, fxr)], 1)          -- fsim[-2]
  else if fxr < fw then                                             -- fsim[-1]
    let xc := contractOutPt c xbar xw
    let fxc := f xc
    if fxc ≤ fxr then (sx0.dropLast ++ [(xc, fxc)], 2)
    else ((x0, f0) :: refShrink f c x0 tl, 2 + tl.length)
  else
    let xcc := contractInPt c xbar xw
    let fxcc := f xcc
    if fxcc < fw then (sx0.dropLast ++ [(xcc, fxcc)], 2)
    else ((x0, f0) :: refShrink f c x0 tl, 2 + tl.length)

def refBody [Add R] [Sub R] [Mul R] [Div R] [LT E] [DecidableLT E] [LE E] [DecidableLE E]
    (f : Pt R → E) (c : Coef R) (sim : List (Pt R × E)) : List (Pt R × E) × Nat :=
  match sim with
  | [] => (sim, 0)
  | (x0, f0) :: tl =>
    match ((x0, f0) :: tl).getLast?, ((x0, f0) :: tl).dropLast.getLast? with
    | some (xw, fw), some (_, fsw) => refCore f c x0 f0 tl xw fw fsw
    | _, _ => (sim, 0)            -- N = 0 (`fsim[-2]` does not exist): not reachable for a real call

/-- l.214-272:
```
while (fcalls[0] < maxfun and iterations < maxiter):
    if (max(ravel(abs(sim[1:]-sim[0]))) <= xtol and max(abs(fsim[0]-fsim[1:])) <= ftol): break
    <body>; ind = argsort(fsim); sim = take(sim,ind,0); fsim = take(fsim,ind,0); iterations += 1
```
(`fuel` bounds the recursion: `maxiter` is always enough) -/
def refLoop [Add R] [Sub R] [Mul R] [Div R] [LT E] [DecidableLT E] [LE E] [DecidableLE E]
    (f : Pt R → E) (c : Coef R) (conv : List (Pt R × E) → Bool) (maxiter maxfun : Nat) :
    Nat → List (Pt R × E) → Nat → Nat → List (Pt R × E) × Nat × Nat
  | 0, sim, fc, it => (sim, fc, it)
  | fuel + 1, sim, fc, it =>
    if fc < maxfun ∧ it < maxiter then
      if conv sim = true then (sim, fc, it)
      else refLoop f c conv maxiter maxfun fuel (sortByE (refBody f c sim).1) (fc + (refBody f c sim).2) (it + 1)
    else (sim, fc, it)

/-- l.171-304 -/
def refFmin [Add R] [Sub R] [Mul R] [Div R] [LT E] [DecidableLT E] [LE E] [DecidableLE E]
    (f : Pt R → E) (c : Coef R) (conv : List (Pt R × E) → Bool) (mkVal : Pt R → Pt R) (x0 : Pt R)
    (maxiter maxfun : Nat) : FminOut R E :=
  let rows := refRows f x0 (mkVal x0) 0
  let sim0 := sortByE ((x0, f x0) :: rows)                       -- l.190-210
  let r := refLoop f c conv maxiter maxfun maxiter sim0 (1 + rows.length) 1     -- iterations = 1 (l.212)
  { sim := r.1, iterations := r.2.2, funcalls := r.2.1, warnflag := warnFlag r.2.1 r.2.2 maxfun maxiter }

/-- l.275 `fval = min(fsim)` (`numpy.minimum.reduce`) -/
def minE [LT E] [DecidableLT E] : List E → Option E
  | [] => none
  | e :: es => some (es.foldl (fun a b => if b < a then b else a) e)

/-! ### mystic -/

/-- `Terminated()` (abstract_solver.py l.691-700) with `CandidateRelativeTolerance`: evaluations reached `maxfun`,
generations reached `maxiter`, or the convergence test holds.  `evaluations` = number of calls of the user's cost =
length of the evaluation log (no strict ranges). -/
def nmStop (conv : List (Pt R × E) → Bool) (maxiter maxfun : Nat) (s : NM R E) (gens : Nat) : Bool :=
  decide (maxfun ≤ s.log.length) || decide (maxiter ≤ gens) || conv s.simplex

/-- `Solve`: `while not Step(): pass` from generation 1 on (each `Step` = one `_Step` then `Terminated`; the check
`Step` makes before stepping repeats the previous one on an unchanged state) -/
def mysticLoop [Add R] [Sub R] [Mul R] [Div R] [LT E] [DecidableLT E] [LE E] [DecidableLE E]
    (o : Obj (Pt R) E) (c : Coef R) (conv : List (Pt R × E) → Bool) (maxiter maxfun : Nat) :
    Nat → NM R E → Nat → NM R E × Nat
  | 0, s, g => (s, g)
  | fuel + 1, s, g =>
    if nmStop conv maxiter maxfun s g = true then (s, g)
    else mysticLoop o c conv maxiter maxfun fuel (NM.update o c id s).1 (g + 1)

def nmOut (s : NM R E) (gens maxiter maxfun : Nat) : FminOut R E :=
  { sim := s.simplex, iterations := gens, funcalls := s.log.length,
    warnflag := warnFlag s.log.length gens maxfun maxiter }

/-- `fmin` (scipy_optimize.py l.503-548): generation 0 (evaluate the guess), `Terminated`?, generation 1 (build and
sort the simplex), `Terminated`?, then updates -/
def mysticFmin [Add R] [Sub R] [Mul R] [Div R] [LT E] [DecidableLT E] [LE E] [DecidableLE E]
    (o : Obj (Pt R) E) (c : Coef R) (zero : R) (conv : List (Pt R × E) → Bool) (mkVal : Pt R → Pt R) (x0 : Pt R)
    (maxiter maxfun : Nat) : FminOut R E :=
  let s0 := NM.gen0 o zero x0
  if nmStop conv maxiter maxfun s0 0 = true then nmOut s0 0 maxiter maxfun
  else
    let r := mysticLoop o c conv maxiter maxfun maxiter (NM.gen1 o id mkVal s0) 1
    nmOut r.1 r.2 maxiter maxfun

end MysticVerif.Solver
