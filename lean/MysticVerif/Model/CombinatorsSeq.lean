/-
A combinator OBJECT called several times (`f = and_(c1..cn)`, then `f(x0)`, `f(x1)`, ...), model of the closure that
`mystic.constraints.and_ / or_ / not_` return (constraints.py l.547-591, 626-669, 701-716).

What the closure captures: `constraints`, `n`, `maxiter`, `onexit`, `onfail` - all bound once and never assigned
again.  Everything else is created INSIDE `_constraint(x)` on every call: the history list
(`x = [x.tolist() if hasattr(x,'tolist') else x[:]]`, l.548 / 627), the flag `e`, and - the point of this file -
the member iterator of the cycling phase (`_constraints = it.cycle(constraints)`, l.567 / 646, executed on every
call that leaves the first pass).  Hence on EVERY call of the object, local member-call number `j` (0-based, first
pass and cycling phase counted together) goes to member `j % n`: nothing of an earlier call (how many cycling steps
it made, where it stopped, whether it raised) is visible to a later one.

The members themselves may be stateful (closures with counters, caches, objects shared between combinators, other
combinator objects): their behaviour is a function `c g i v` of the GLOBAL member-call number `g` (counted over the
whole life of the object: call `k` of the object starts at `g = ` total number of member calls made by calls
`0 .. k-1`), of the member index `i` the call is made to, and of the vector `v` handed over.  A pure member system
is the special case `c g i v = mem i v`.

`seqRun` threads the global call counter through the calls; `andSeq / orSeq / notSeq` are the three objects.
No Mathlib imports: this file is linked into `mvdrv`.
-/
import MysticVerif.Model.CombinatorsX

namespace MysticVerif.CombSeq
open MysticVerif.CombX
open MysticVerif.Comb (Stats)

variable {X D I : Type}

/-- what one call of the object sees of the members: local call `j` is global call `g0 + j`, made to member `j % n`
(the first pass enumerates `constraints`, the cycling phase a FRESH `it.cycle(constraints)` started at `j = n`) -/
def view (c : Nat → Nat → X → Out X) (n g0 : Nat) : Nat → X → Out X := fun j => c (g0 + j) (j % n)

/-- `not_` has a single member -/
def view1 (c : Nat → Nat → X → Out X) (g0 : Nat) : Nat → X → Out X := fun j => c (g0 + j) 0

/-- calls of one object in turn: call `k` runs `f g_k input_k` where `g_k` is the number of member calls made so far -/
def seqRun (f : Nat → I → ResX X × Stats) : Nat → List I → List (ResX X × Stats)
  | _, [] => []
  | g0, i :: rest => f g0 i :: seqRun f (g0 + (f g0 i).2.calls) rest

/-- global member-call number at which call `k` of the sequence starts -/
def offset (f : Nat → I → ResX X × Stats) : Nat → List I → Nat → Nat
  | g0, _, 0 => g0
  | g0, [], _ + 1 => g0
  | g0, i :: rest, k + 1 => offset f (g0 + (f g0 i).2.calls) rest k

/-- one `and_` object (members `c`, `cap = maxiter * n`) called on `(input, draw stream)` pairs in turn -/
def andSeq [BEq X] (c : Nat → Nat → X → Out X) (rand : D → X → X) (n cap : Nat) :
    Nat → List (X × List D) → List (ResX X × Stats) :=
  seqRun (fun g0 p => and_ (view c n g0) rand n cap p.1 p.2)

/-- one `or_` object -/
def orSeq [BEq X] (c : Nat → Nat → X → Out X) (pick : D → Nat) (n cap : Nat) :
    Nat → List (X × List D) → List (ResX X × Stats) :=
  seqRun (fun g0 p => or_ (view c n g0) pick n cap p.1 p.2)

/-- one `not_` object -/
def notSeq [BEq X] (c : Nat → Nat → X → Out X) (rand : D → X → X) (maxiter : Nat) :
    Nat → List (X × List D) → List (ResX X × Stats) :=
  seqRun (fun g0 p => not_ (view1 c g0) rand maxiter p.1 p.2)

end MysticVerif.CombSeq
