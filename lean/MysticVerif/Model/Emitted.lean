/-
Model of the code that `mystic/symbolic.py` GENERATES from constraint text (C13, C14).

* `Expr C`   - the expression language of the emitted source (`constraints_parser` l.1027-1160,
               `penalty_parser` l.933-1024): numerals, `x[j]`, `+ - * /`, unary minus, python builtin
               `max(a,b)` / `min(a,b)`, `_tol(e,tol,rel)` (`math/approx.py` l.124), numpy `equal(a,b)` used
               as a number, `any(equal(r,[..]))` (unfolded into `bor`), and `(e) == 0`.
               `C` is the type of numeral tokens (driver: the UInt64 bit pattern; theorems: anything) and
               `Env.ι : C → R` reads them, so that emitted code can be compared structurally
               (`DecidableEq (Expr C)`) without any equality on `R`.
* `Expr.eval` - what python's `exec`/`eval` computes, over any scalar type with the operations
               (driver: `Float`, bit-exact; theorems: a linearly ordered field).
               `Expr.defined` = no `ZeroDivisionError` / `IndexError` on the way.
* `Assign.exec`, `chain` - `generate_solvers` (l.1328-1341: `exec('x[i] = e'); return x`) and
               `generate_constraint` with the default `coupler.inner` nesting (l.1515-1520, coupler.py l.49-77).
* `emit`, `recognise` - the shapes `constraints_parser` emits for one isolated relation `x_i ⋈ rhs`.
* `condEmit`  - the expression `penalty_parser` emits for one relation `lhs ⋈ rhs`.
* `PType.term`, `penalty` - `penalty.py` quadratic/linear/uniform (in)equality terms (l.41-457) stacked by
               `generate_penalty` (l.1417-1426).
No Mathlib.
-/

namespace MysticVerif.Emitted

/-! ## expressions -/

inductive Expr (C : Type) where
  | num (c : C)
  | var (j : Nat)                       -- `x[j]`
  | add (a b : Expr C)
  | sub (a b : Expr C)
  | mul (a b : Expr C)
  | div (a b : Expr C)
  | neg (a : Expr C)
  | max (a b : Expr C)                  -- python builtin `max(a, b)`
  | min (a b : Expr C)                  -- python builtin `min(a, b)`
  | tol (a : Expr C)                    -- `_tol(a,tol,rel)`
  | equal (a b : Expr C)                -- numpy `equal(a,b)` in arithmetic: 1 / 0
  | bor (a b : Expr C)                  -- `any([a, b..])`: 1 if a ≠ 0 or b ≠ 0 else 0
  | false_                              -- `any([])` = False = 0
  | isZero (a : Expr C)                 -- `(a) == 0` : True / False = 1 / 0
  | abs (a : Expr C)                    -- python builtin `abs(a)` (user text; `from builtins import *` comes last, l.1221/1306)
  | app1 (f : Nat) (a : Expr C)         -- a unary numeric function of the generated namespace (`sqrt`, `exp`, `floor`, ..)
  | app2 (f : Nat) (a b : Expr C)       -- a binary one; `f = 0` is python's `a ** b`
  deriving DecidableEq, Repr, Inhabited

/-- numeral reader, the two tolerance parameters (`locals['tol']`, `locals['rel']`) and the reading of the function
symbols of the generated namespace (`from math import *; from numpy import *`, l.1219/1304). The theorems hold for
EVERY reading of the function symbols; the driver instantiates them with the IEEE / libm functions. -/
structure Env (C R : Type) where
  ι : C → R
  tol : R
  rel : R
  f1 : Nat → R → R := fun _ a => a
  f2 : Nat → R → R → R := fun _ a _ => a

section ops
variable {C R : Type} [Add R] [Sub R] [Mul R] [Div R] [Neg R] [LT R] [DecidableLT R] [BEq R]
  [OfNat R 0] [OfNat R 1]

/-- python `abs` on a float -/
def absR (a : R) : R := if a < 0 then -a else a
/-- python builtin `abs` as the user's text calls it: `abs(-0.0)` is `0.0` (`a + 0` clears the sign of a zero) -/
def absZ (a : R) : R := if a < 0 then -a else a + 0
/-- python builtin `max(a, b)`: the first argument wins unless `b > a` -/
def pyMax (a b : R) : R := if a < b then b else a
/-- python builtin `min(a, b)`: the first argument wins unless `b < a` -/
def pyMin (a b : R) : R := if b < a then b else a
/-- `mystic.math.tolerance(x, tol, rel) = tol + abs(x)*rel` -/
def tolf (env : Env C R) (a : R) : R := env.tol + absR a * env.rel
/-- a python / numpy bool used in arithmetic -/
def b2r (b : Bool) : R := if b = true then 1 else 0

def Expr.eval (env : Env C R) (x : List R) : Expr C → R
  | .num c => env.ι c
  | .var j => x.getD j 0
  | .add a b => a.eval env x + b.eval env x
  | .sub a b => a.eval env x - b.eval env x
  | .mul a b => a.eval env x * b.eval env x
  | .div a b => a.eval env x / b.eval env x
  | .neg a => -(a.eval env x)
  | .max a b => pyMax (a.eval env x) (b.eval env x)
  | .min a b => pyMin (a.eval env x) (b.eval env x)
  | .tol a => tolf env (a.eval env x)
  | .equal a b => b2r (a.eval env x == b.eval env x)
  | .bor a b => b2r (a.eval env x != 0 || b.eval env x != 0)
  | .false_ => 0
  | .isZero a => b2r (a.eval env x == 0)
  | .abs a => absZ (a.eval env x)
  | .app1 f a => env.f1 f (a.eval env x)
  | .app2 f a b => env.f2 f (a.eval env x) (b.eval env x)

/-- no `IndexError` (`x[j]` with `j ≥ len x`) and no `ZeroDivisionError` while evaluating
(`0.0 ** negative` raises ZeroDivisionError; the numpy functions never raise) -/
def Expr.defined (env : Env C R) (x : List R) : Expr C → Bool
  | .num _ => true
  | .var j => decide (j < x.length)
  | .add a b => a.defined env x && b.defined env x
  | .sub a b => a.defined env x && b.defined env x
  | .mul a b => a.defined env x && b.defined env x
  | .div a b => a.defined env x && b.defined env x && !(b.eval env x == 0)
  | .neg a => a.defined env x
  | .max a b => a.defined env x && b.defined env x
  | .min a b => a.defined env x && b.defined env x
  | .tol a => a.defined env x
  | .equal a b => a.defined env x && b.defined env x
  | .bor a b => a.defined env x && b.defined env x
  | .false_ => true
  | .isZero a => a.defined env x
  | .abs a => a.defined env x
  | .app1 _ a => a.defined env x
  | .app2 f a b => a.defined env x && b.defined env x &&
      !(f == 0 && a.eval env x == 0 && decide (b.eval env x < 0))

end ops

/-- does the expression read `x[i]` -/
def Expr.mentions {C : Type} (i : Nat) : Expr C → Bool
  | .num _ => false
  | .var j => j == i
  | .add a b => a.mentions i || b.mentions i
  | .sub a b => a.mentions i || b.mentions i
  | .mul a b => a.mentions i || b.mentions i
  | .div a b => a.mentions i || b.mentions i
  | .neg a => a.mentions i
  | .max a b => a.mentions i || b.mentions i
  | .min a b => a.mentions i || b.mentions i
  | .tol a => a.mentions i
  | .equal a b => a.mentions i || b.mentions i
  | .bor a b => a.mentions i || b.mentions i
  | .false_ => false
  | .isZero a => a.mentions i
  | .abs a => a.mentions i
  | .app1 _ a => a.mentions i
  | .app2 _ a b => a.mentions i || b.mentions i

/-- expressions whose value is a python bool (0 or 1) -/
def Expr.isBool {C : Type} : Expr C → Bool
  | .equal _ _ => true
  | .bor a b => a.isBool && b.isBool
  | .false_ => true
  | .isZero _ => true
  | _ => false

/-! ## solver functions (`generate_solvers`) and their composition (`generate_constraint`) -/

/-- one emitted statement `x[i] = e` -/
structure Assign (C : Type) where
  i : Nat
  e : Expr C
  deriving DecidableEq, Repr, Inhabited

section exec
variable {C R : Type} [Add R] [Sub R] [Mul R] [Div R] [Neg R] [LT R] [DecidableLT R] [BEq R]
  [OfNat R 0] [OfNat R 1]

/-- `exec('x[i] = e'); return x`  (the right-hand side is evaluated first, then stored) -/
def Assign.exec (env : Env C R) (a : Assign C) (x : List R) : List R := x.set a.i (a.e.eval env x)

def Assign.defined (env : Env C R) (a : Assign C) (x : List R) : Bool :=
  decide (a.i < x.length) && a.e.defined env x

/-- `generate_constraint(solvers)` with `ctype=None`, `join=None`:
`cf = lambda x: x; for s in solvers: cf = inner(s)(cf)`, i.e. `cf(x) = s0(s1(...(s_{m-1}(x))))`:
the LAST solver of the tuple is applied first. -/
def chain (env : Env C R) (codes : List (Assign C)) (x : List R) : List R :=
  codes.foldr (fun c acc => c.exec env acc) x

/-- the same with python's exceptions: `none` as soon as one statement raises -/
def chain? (env : Env C R) (codes : List (Assign C)) (x : List R) : Option (List R) :=
  codes.foldr (fun c acc => acc.bind fun v => if c.defined env v = true then some (c.exec env v) else none) (some x)

end exec

/-! ## what `constraints_parser` emits for one isolated relation -/

inductive Cmp where
  | eq | le | ge | lt | gt | ne
  deriving DecidableEq, Repr, Inhabited

/-- `x_i ⋈ rhs` as written in the constraint text -/
structure Rel (C : Type) where
  i : Nat
  cmp : Cmp
  rhs : Expr C
  deriving DecidableEq, Repr, Inhabited

/-- `any(equal(r,[n1,n2,..]))` -/
def anyEq {C : Type} (r : Expr C) : List (Expr C) → Expr C
  | [] => .false_
  | n :: ns => .bor (.equal r n) (anyEq r ns)

/-- the statement emitted for `r`, with `B` the boolean factor of the `<=`/`>=` tolerance term
(`any(equal(rhs, neq))`, l.1133) and `c` the numeral `1.1` of the `!=` step (l.1114):
 `=`  : `x[i] = rhs`                                   (l.1147)
 `<`  : `x[i] = min(rhs - _tol(rhs), x[i])`             (l.1137, 1144, 1154)
 `>`  : `x[i] = max(rhs + _tol(rhs), x[i])`             (l.1137, 1141, 1154)
 `<=` : `x[i] = min(rhs - (_tol(rhs) * B), x[i])`       (l.1133-1135, 1144, 1155)
 `>=` : `x[i] = max(rhs + (_tol(rhs) * B), x[i])`
 `!=` : `x[i] = x[i] + equal(x[i],rhs) * (_tol(rhs) * c)`   (l.1114-1117) -/
def emitG {C : Type} (r : Rel C) (B : Expr C) (c : C) : Assign C :=
  match r.cmp with
  | .eq => ⟨r.i, r.rhs⟩
  | .lt => ⟨r.i, .min (.sub r.rhs (.tol r.rhs)) (.var r.i)⟩
  | .gt => ⟨r.i, .max (.add r.rhs (.tol r.rhs)) (.var r.i)⟩
  | .le => ⟨r.i, .min (.sub r.rhs (.mul (.tol r.rhs) B)) (.var r.i)⟩
  | .ge => ⟨r.i, .max (.add r.rhs (.mul (.tol r.rhs) B)) (.var r.i)⟩
  | .ne => ⟨r.i, .add (.var r.i) (.mul (.equal (.var r.i) r.rhs) (.mul (.tol r.rhs) (.num c)))⟩

/-- the emission for a given list `neq` of values that `!=` lines forbid for `x_i` (l.1153) -/
def emit {C : Type} (r : Rel C) (neq : List (Expr C)) (c : C) : Assign C := emitG r (anyEq r.rhs neq) c

/-- the boolean factor / scale numeral of a statement, where the shape has one -/
def Assign.factor {C : Type} (code : Assign C) : Expr C :=
  match code.e with
  | .min (.sub _ (.mul _ B)) _ => B
  | .max (.add _ (.mul _ B)) _ => B
  | _ => .false_

def Assign.scale {C : Type} (code : Assign C) (dflt : C) : C :=
  match code.e with
  | .add _ (.mul _ (.mul _ (.num c))) => c
  | _ => dflt

/-- Is `code` one of the statements the parser may emit for relation `r`?
(`isPos` decides positivity of the scale numeral; `dflt` is any numeral with `isPos dflt`.) -/
def recognise {C : Type} [DecidableEq C] (isPos : C → Bool) (dflt : C) (r : Rel C) (code : Assign C) : Bool :=
  decide (code = emitG r code.factor (code.scale dflt)) &&
    (match r.cmp with
     | .le => code.factor.isBool
     | .ge => code.factor.isBool
     | .ne => isPos (code.scale dflt)
     | _ => true)

/-- argument order of the outer `min`/`max` is immaterial for the value (`Props/C13.canon_exec`): a statement
`x[i] = min(x[i], e)` / `max(x[i], e)` is read as `min(e, x[i])` / `max(e, x[i])` before it is validated -/
def Assign.canon {C : Type} (code : Assign C) : Assign C :=
  match code.e with
  | .min (.var j) b => if j = code.i then ⟨code.i, .min b (.var j)⟩ else code
  | .max (.var j) b => if j = code.i then ⟨code.i, .max b (.var j)⟩ else code
  | _ => code

/-! ## what `penalty_parser` emits -/

/-- `lhs ⋈ rhs` (any left-hand side) -/
structure Rel2 (C : Type) where
  lhs : Expr C
  cmp : Cmp
  rhs : Expr C
  deriving DecidableEq, Repr, Inhabited

inductive Kind where
  | ineq | eq
  deriving DecidableEq, Repr, Inhabited

/-- l.1009-1022:
 `=`  : equality   `lhs - (rhs)`
 `<=` : inequality `lhs - (rhs)`            `<` : inequality `lhs - (rhs - _tol(rhs))`
 `>=` : inequality `-(lhs - (rhs))`         `>` : inequality `-(lhs - (rhs + _tol(rhs)))`
 `!=` : equality   `(lhs - (rhs)) == 0` -/
def condEmit {C : Type} (r : Rel2 C) : Kind × Expr C :=
  match r.cmp with
  | .eq => (.eq, .sub r.lhs r.rhs)
  | .le => (.ineq, .sub r.lhs r.rhs)
  | .lt => (.ineq, .sub r.lhs (.sub r.rhs (.tol r.rhs)))
  | .ge => (.ineq, .neg (.sub r.lhs r.rhs))
  | .gt => (.ineq, .neg (.sub r.lhs (.add r.rhs (.tol r.rhs))))
  | .ne => (.eq, .isZero (.sub r.lhs r.rhs))

def recogniseCond {C : Type} [DecidableEq C] (r : Rel2 C) (k : Kind) (e : Expr C) : Bool :=
  decide ((k, e) = condEmit r)

def Rel.toRel2 {C : Type} (r : Rel C) : Rel2 C := ⟨.var r.i, r.cmp, r.rhs⟩

/-! ## penalty terms and their stacking -/

inductive PType where
  | qEq | lEq | uEq | qIneq | lIneq | uIneq
  deriving DecidableEq, Repr, Inhabited

def PType.kind : PType → Kind
  | .qEq | .lEq | .uEq => .eq
  | .qIneq | .lIneq | .uIneq => .ineq

/-- `generate_penalty` with `ptype=None` (l.1404-1411) -/
def Kind.default : Kind → PType
  | .eq => .qEq
  | .ineq => .qIneq

section pen
variable {C R : Type} [Add R] [Sub R] [Mul R] [Div R] [Neg R] [LT R] [DecidableLT R] [BEq R]
  [OfNat R 0] [OfNat R 1]

/-- `pow(h, n)` for a natural `n` -/
def powN (h : R) : Nat → R
  | 0 => 1
  | n + 1 => powN h n * h

/-- the term one penalty decorator adds, `c` the condition value, `k' = k * pow(h, n)` (`2*k'` is written `k' + k'`: both are exact doublings):
 quadratic_equality   l.87-88   `float(k')*c**2`
 linear_equality      l.146-147 `float(k')*abs(c)`
 uniform_equality     l.205     `float(k)*pow(h,n) if c else 0.0`
 quadratic_inequality l.387-388 `float(2*k')*max(0., c)**2`
 linear_inequality    l.446-447 `float(2*k')*abs(max(0., c))`
 uniform_inequality   l.264     `float(k)*pow(h,n) if c > 0 else 0.0` -/
def PType.term (t : PType) (k' c : R) : R :=
  match t with
  | .qEq => k' * (c * c)
  | .lEq => k' * absR c
  | .uEq => if (c != 0) = true then k' else 0
  | .qIneq => (k' + k') * (pyMax 0 c * pyMax 0 c)
  | .lIneq => (k' + k') * absR (pyMax 0 c)
  | .uIneq => if 0 < c then k' else 0

/-- `generate_penalty`: `pf = lambda x: 0.0; for (ptype, cond): pf = ptype(cond, k, h)(pf)`;
each level returns `term + pf_inner(x)`, so the value is `t_m + (... + (t_1 + 0.0))`.
`none`: the condition of that level raised `ZeroDivisionError`, the level returns `inf` (= `top`)
WITHOUT adding the inner levels (penalty.py l.83-86). -/
def penalty (env : Env C R) (k' top : R) (ts : List (PType × Expr C)) (x : List R) : R :=
  ts.foldl (fun acc te =>
    if te.2.defined env x = true then te.1.term k' (te.2.eval env x) + acc else top) 0

end pen

end MysticVerif.Emitted
