/-
C12 - symbolic rewriting preserves the solution set: the executable VALIDATOR (DESIGN.md section 5, C12).

`mystic.symbolic.simplify / solve / linear_symbolic / symbolic_bounds` produce TEXT at run time (through
sympy, string surgery and random test points).  What is modelled here is therefore not the string
surgery but (a) the small pure pieces the rewriting is built from - `_flip` (symbolic.py l.195-201),
the inclusive / exclusive `merge` decision table (l.277-303), the row layout of `linear_symbolic`
(l.86-90, l.118-122) and `symbolic_bounds` (l.158-182) - and (b) a decision procedure that takes the
parsed input system and the parsed text the real code returned on this run and decides, in exact
arithmetic, whether they have the same solution set.  `Props/C12.lean` proves the decision procedure
sound for all systems over an arbitrary linearly ordered field; the driver runs it at `Rat`.

Everything is generic in the scalar `K` (operations only, no laws; no Mathlib import).
A point is `x : Nat → K` (variable index ↦ value).
-/
namespace MysticVerif.Sym

/-- the six comparators of `symbolic.comparator` (`=` and `==` are both `eq`) -/
inductive Cmp where
  | lt | le | gt | ge | eq | ne
  deriving DecidableEq, Repr, Inhabited

/-- symbolic.py l.200-201: `_flip(cmp)` = `'<=' if cmp == '>=' else '<' if cmp == '>' else '>=' if cmp == '<='
else '>' if cmp == '<' else cmp` (used when dividing by a negative value) -/
def Cmp.flip : Cmp → Cmp
  | .ge => .le | .gt => .lt | .le => .ge | .lt => .gt | .eq => .eq | .ne => .ne

/-- symbolic.py l.197-199: `_flip(cmp, bounds=True)` (`'<'` to `'>='`: the complementary set) -/
def Cmp.flipB : Cmp → Cmp
  | .ge => .lt | .gt => .le | .le => .gt | .lt => .ge | .eq => .eq | .ne => .ne

section
variable {K : Type}

/-- `a cmp b` as a proposition -/
def Cmp.holds [LT K] [LE K] (c : Cmp) (a b : K) : Prop :=
  match c with
  | .lt => a < b | .le => a ≤ b | .gt => b < a | .ge => b ≤ a | .eq => a = b | .ne => a ≠ b

/-- `a cmp b` decided -/
def Cmp.test [LT K] [LE K] [DecidableEq K] [DecidableLT K] [DecidableLE K] (c : Cmp) (a b : K) : Bool :=
  match c with
  | .lt => decide (a < b) | .le => decide (a ≤ b) | .gt => decide (b < a) | .ge => decide (b ≤ a)
  | .eq => decide (a = b) | .ne => !decide (a = b)

/-! ### linear forms -/

/-- `Σ_j co[j] * x (i + j)` -/
def dot [Add K] [Mul K] [OfNat K 0] : List K → (Nat → K) → Nat → K
  | [], _, _ => 0
  | a :: as, x, i => a * x i + dot as x (i + 1)

/-- affine form `Σ co[j] * x j + c` (dense coefficient list; missing trailing entries are 0) -/
structure Form (K : Type) where
  co : List K
  c : K
  deriving DecidableEq, Repr

def Form.eval [Add K] [Mul K] [OfNat K 0] (f : Form K) (x : Nat → K) : K := dot f.co x 0 + f.c

def subL [Sub K] [Neg K] : List K → List K → List K
  | [], ys => ys.map (fun y => -y)
  | x :: xs, [] => x :: xs
  | x :: xs, y :: ys => (x - y) :: subL xs ys

def addL [Add K] : List K → List K → List K
  | [], ys => ys
  | x :: xs, [] => x :: xs
  | x :: xs, y :: ys => (x + y) :: addL xs ys

def Form.sub [Sub K] [Neg K] (f g : Form K) : Form K := ⟨subL f.co g.co, f.c - g.c⟩
def Form.add [Add K] (f g : Form K) : Form K := ⟨addL f.co g.co, f.c + g.c⟩
def Form.smul [Mul K] (a : K) (f : Form K) : Form K := ⟨f.co.map (fun t => a * t), a * f.c⟩
def Form.zero [OfNat K 0] : Form K := ⟨[], 0⟩
def Form.const (v : K) : Form K := ⟨[], v⟩

/-- drop trailing zero coefficients -/
def stripZ [DecidableEq K] [OfNat K 0] : List K → List K
  | [] => []
  | a :: as =>
    match stripZ as with
    | [] => if a = 0 then [] else [a]
    | t :: ts => a :: t :: ts

/-- first non-zero coefficient -/
def lead [DecidableEq K] [OfNat K 0] : List K → Option K
  | [] => none
  | a :: as => if a = 0 then lead as else some a

/-! ### lines, canonical lines -/

/-- one relation `l cmp r` between two affine forms -/
structure Line (K : Type) where
  l : Form K
  cmp : Cmp
  r : Form K
  deriving DecidableEq, Repr

def Line.sat [Add K] [Mul K] [OfNat K 0] [LT K] [LE K] (ln : Line K) (x : Nat → K) : Prop :=
  ln.cmp.holds (ln.l.eval x) (ln.r.eval x)

/-- canonical line `Σ co[j] x j + c  cmp  0` -/
structure CLine (K : Type) where
  co : List K
  c : K
  cmp : Cmp
  deriving DecidableEq, Repr

def CLine.sat [Add K] [Mul K] [OfNat K 0] [LT K] [LE K] (l : CLine K) (x : Nat → K) : Prop :=
  l.cmp.holds (dot l.co x 0 + l.c) 0

/-- the unsatisfiable canonical line `1 < 0` (not an equality: `splitEq` leaves it alone) -/
def falsum [OfNat K 0] [OfNat K 1] : CLine K := ⟨[], 1, .lt⟩

section canon
variable [Add K] [Sub K] [Mul K] [Div K] [Neg K] [OfNat K 0] [OfNat K 1] [LT K] [LE K]
  [DecidableEq K] [DecidableLT K] [DecidableLE K]

/-- move everything to the left, strip trailing zeros, divide by the first non-zero coefficient and flip
the comparator when that coefficient is negative (this is exactly the rule `_simplify1` has to get right
when it isolates a variable).  A line without variables is decided: true -> no line, false -> `falsum`. -/
def normLine (ln : Line K) : List (CLine K) :=
  let p := ln.l.sub ln.r
  let co := stripZ p.co
  match lead co with
  | none => if ln.cmp.test p.c 0 = true then [] else [falsum]
  | some a => [⟨co.map (fun t => t / a), p.c / a, if 0 < a then ln.cmp else ln.cmp.flip⟩]

/-- `p = 0` is stored as the pair `p ≥ 0`, `p ≤ 0` (so that `merge`'s `{>=, <=} -> =` is the identity on
canonical systems) -/
def splitEq (l : CLine K) : List (CLine K) :=
  if l.cmp = .eq then [⟨l.co, l.c, .ge⟩, ⟨l.co, l.c, .le⟩] else [l]

def canonLine (ln : Line K) : List (CLine K) := (normLine ln).flatMap splitEq

/-- canonical form of a conjunction of lines (a list read as a set) -/
def canonSys (s : List (Line K)) : List (CLine K) := s.flatMap canonLine

end canon

/-! ### comparing canonical systems and disjunctions of them -/

def subsetL {α : Type} [DecidableEq α] (a b : List α) : Bool := a.all fun c => decide (c ∈ b)
def sameSet {α : Type} [DecidableEq α] (a b : List α) : Bool := subsetL a b && subsetL b a

/-- comparator pairs that cannot hold together for the same left-hand side -/
def contra : Cmp → Cmp → Bool
  | .lt, .gt => true | .lt, .ge => true | .le, .gt => true
  | .gt, .lt => true | .ge, .lt => true | .gt, .le => true
  | _, _ => false

/-- a canonical case that is visibly unsatisfiable: contains `falsum` or `p < 0` with `p > 0` / `p ≥ 0` ...
(what `merge(inclusive=False)` turns into `None`, symbolic.py l.299-303) -/
def emptyCase [DecidableEq K] [OfNat K 0] [OfNat K 1] (s : List (CLine K)) : Bool :=
  s.any fun a => decide (a = falsum) ||
    s.any fun b => decide (a.co = b.co) && decide (a.c = b.c) && contra a.cmp b.cmp

def covered [DecidableEq K] [OfNat K 0] [OfNat K 1] (A B : List (List (CLine K))) : Bool :=
  A.all fun a => emptyCase a || B.any fun b => sameSet a b

/-- two disjunctions of canonical cases denote the same set: every non-empty case of one is a case of the other -/
def dnfEquiv [DecidableEq K] [OfNat K 0] [OfNat K 1] (A B : List (List (CLine K))) : Bool :=
  covered A B && covered B A

/-! ### input items: linear lines and rational relations `p / q cmp r` -/

inductive Item (K : Type) where
  | lin (ln : Line K)
  | rat (p q : Form K) (cmp : Cmp) (r : K)       -- `p / q cmp r`, `p q` affine, `r` a number
  deriving Repr

/-- a rational relation holds where the divisor is non-zero and the quotient compares as stated
(at `q = 0` Python raises `ZeroDivisionError`: not satisfied) -/
def Item.sat [Add K] [Mul K] [Div K] [OfNat K 0] [LT K] [LE K] (it : Item K) (x : Nat → K) : Prop :=
  match it with
  | .lin ln => ln.sat x
  | .rat p q cmp r => q.eval x ≠ 0 ∧ cmp.holds (p.eval x / q.eval x) r

section expand
variable [Mul K] [OfNat K 0]

/-- the sign cases of one item: `q > 0 ∧ p cmp r*q`  or  `q < 0 ∧ p (flip cmp) r*q`;
for `=`/`!=` the single case `q != 0 ∧ p cmp r*q` -/
def expandItem (it : Item K) : List (List (Line K)) :=
  match it with
  | .lin ln => [[ln]]
  | .rat p q cmp r =>
    let rq := q.smul r
    if cmp = .eq ∨ cmp = .ne then [[⟨q, .ne, Form.zero⟩, ⟨p, cmp, rq⟩]]
    else [[⟨q, .gt, Form.zero⟩, ⟨p, cmp, rq⟩], [⟨q, .lt, Form.zero⟩, ⟨p, cmp.flip, rq⟩]]

/-- all combinations of sign cases (the `itertools.product` of symbolic.py l.783) -/
def expand : List (Item K) → List (List (Line K))
  | [] => [[]]
  | it :: rest => (expandItem it).flatMap fun a => (expand rest).map fun s => a ++ s

end expand

section validate
variable [Add K] [Sub K] [Mul K] [Div K] [Neg K] [OfNat K 0] [OfNat K 1] [LT K] [LE K]
  [DecidableEq K] [DecidableLT K] [DecidableLE K]

/-- THE VALIDATOR for `simplify`: input items vs. the returned cases (each case a list of lines) -/
def validate (inp : List (Item K)) (out : List (List (Line K))) : Bool :=
  dnfEquiv ((expand inp).map canonSys) (out.map canonSys)

/-! ### `solve`: certificate check -/

/-- `Σ_j a_j • f_j` -/
def lincomb : List K → List (Form K) → Form K
  | a :: as, f :: fs => (f.smul a).add (lincomb as fs)
  | _, _ => Form.zero

def formEq (f g : Form K) : Bool := decide (stripZ f.co = stripZ g.co) && decide (f.c = g.c)

/-- every `g ∈ gs` is the stated combination (row of `A`) of `fs` -/
def combOK : List (List K) → List (Form K) → List (Form K) → Bool
  | [], _, [] => true
  | row :: rows, fs, g :: gs => formEq (lincomb row fs) g && combOK rows fs gs
  | _, _, _ => false

/-- equations `p = 0`: `out = A·inp` and `inp = B·out`, checked exactly -/
def certOK (inp out : List (Form K)) (A B : List (List K)) : Bool :=
  combOK A inp out && combOK B out inp

/-- an equality line as the form `l - r` (`none` if the comparator is not `=`) -/
def eqForm (ln : Line K) : Option (Form K) := if ln.cmp = .eq then some (ln.l.sub ln.r) else none

def eqForms : List (Line K) → Option (List (Form K))
  | [] => some []
  | ln :: rest =>
    match eqForm ln, eqForms rest with
    | some f, some fs => some (f :: fs)
    | _, _ => none

/-- validator for `solve`: both systems must consist of equalities and the certificate must check -/
def solveOK (inp out : List (Line K)) (A B : List (List K)) : Bool :=
  match eqForms inp, eqForms out with
  | some fi, some fo => certOK fi fo A B
  | _, _ => false

/-! ### `linear_symbolic` and `symbolic_bounds`: the systems the text has to denote -/

/-- rows `A_i · x = b_i` (symbolic.py l.86-90) -/
def eqRows : List (List K) → List K → List (Line K)
  | row :: rows, v :: vs => ⟨⟨row, 0⟩, .eq, Form.const v⟩ :: eqRows rows vs
  | _, _ => []

/-- rows `G_i · x <= h_i` (symbolic.py l.118-122) -/
def leRows : List (List K) → List K → List (Line K)
  | row :: rows, v :: vs => ⟨⟨row, 0⟩, .le, Form.const v⟩ :: leRows rows vs
  | _, _ => []

/-- `totalconstraints = ineqstring + eqstring` (l.123) -/
def matrixRows (A : List (List K)) (b : List K) (G : List (List K)) (h : List K) : List (Line K) :=
  leRows G h ++ eqRows A b

/-- the form `x_i` -/
def unitForm (i : Nat) : Form K := ⟨List.replicate i 0 ++ [1], 0⟩

/-- `x_i >= lo_i` for the finite `lo_i` (symbolic.py l.180; `none` = infinite side, omitted) -/
def loRows : Nat → List (Option K) → List (Line K)
  | _, [] => []
  | i, none :: rest => loRows (i + 1) rest
  | i, some v :: rest => ⟨unitForm i, .ge, Form.const v⟩ :: loRows (i + 1) rest

/-- `x_i <= hi_i` for the finite `hi_i` (l.181) -/
def hiRows : Nat → List (Option K) → List (Line K)
  | _, [] => []
  | i, none :: rest => hiRows (i + 1) rest
  | i, some v :: rest => ⟨unitForm i, .le, Form.const v⟩ :: hiRows (i + 1) rest

def boundRows (lo hi : List (Option K)) : List (Line K) := loRows 0 lo ++ hiRows 0 hi

/-- validator for a text that has to denote exactly one given conjunction -/
def sameSystem (want got : List (Line K)) : Bool :=
  validate (want.map Item.lin) [got]

end validate

/-! ### `merge` (symbolic.py l.257-303) on abstract lines

`merge` works on the TEXT of the lines: two lines are related when one is literally `flip` of the other,
i.e. same left and right text, opposite inequality.  Abstractly a line is `(e, cmp)` with `e` the pair of
texts; only equality of `e` is used. -/

structure TLine (E : Type) where
  e : E
  cmp : Cmp
  deriving DecidableEq, Repr

def TLine.flip {E : Type} (l : TLine E) : TLine E := ⟨l.e, l.cmp.flip⟩
def TLine.flipB {E : Type} (l : TLine E) : TLine E := ⟨l.e, l.cmp.flipB⟩
def Cmp.isIneq : Cmp → Bool
  | .lt => true | .le => true | .gt => true | .ge => true | _ => false
def Cmp.isStrict : Cmp → Bool
  | .lt => true | .gt => true | _ => false
def Cmp.isWeak : Cmp → Bool
  | .le => true | .ge => true | _ => false

def dedup {α : Type} [DecidableEq α] : List α → List α
  | [] => []
  | a :: as => if a ∈ as then dedup as else a :: dedup as

/-- `merge(*equations, inclusive=False)` (l.299-303): `{>=, <=}` of the same text become `=`; any other
opposite pair makes the whole system invalid (`None`); duplicates removed (a `set`). -/
def mergeExcl {E : Type} [DecidableEq E] (eqs : List (TLine E)) : Option (List (TLine E)) :=
  let s1 := eqs.map fun i => if i.cmp.isWeak = true ∧ i.flip ∈ eqs then (⟨i.e, .eq⟩ : TLine E) else i
  if s1.any (fun i => i.cmp.isIneq && (decide (i.flip ∈ s1) || decide (i.flipB ∈ s1))) = true then none
  else some (dedup s1)

/-- `merge(*equations, inclusive=True)` (l.286-290): `{>, <}` of the same text become `!=`; any other
opposite pair is DELETED; duplicates removed.  (Right for a union of bounds; `absval` l.582 applies it to
the conjunction of the input lines.) -/
def mergeIncl {E : Type} [DecidableEq E] (eqs : List (TLine E)) : List (TLine E) :=
  let s1 := eqs.map fun i => if i.cmp.isStrict = true ∧ i.flip ∈ eqs then (⟨i.e, .ne⟩ : TLine E) else i
  dedup (s1.filter fun i => !(i.cmp.isIneq && (decide (i.flip ∈ s1) || decide (i.flipB ∈ s1))))

end
end MysticVerif.Sym
