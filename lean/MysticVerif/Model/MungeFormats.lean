/-
`mystic.munge` on trajectories that are not rectangular lists of flat vectors (the case Model/Monitor.lean
covers): `raw_to_converge` (munge.py l.233-241) decides from `steps[0][0]` ALONE whether the steps are wrapped
(`[[step] for step in steps]`) before every step is transposed (`list(zip(*step))`); `converge_to_support`
(l.228-231) is `zip(*steps)` and stops at the shortest step; `_process_ids` (l.164-188) passes a list of tuples
through (`ids[:n]`) - this is how `read_history(logfile, iter=True)` returns the iteration numbers of a log
written with `interval > 1` (gaps) and the `(iteration, id)` pairs; an empty id LIST is not `None`.
`LoggingMonitor` over a whole call sequence: the rows of the file.
No Mathlib (linked into `mvdrv`).
-/
import MysticVerif.Model.Monitor

namespace MysticVerif.Mon

variable {R : Type}

/-- `list(zip(*[step]))`: every parameter becomes a 1-tuple.  A scalar step is not iterable (`TypeError`); a
step that is itself a list of lists would give tuples of lists - deeper than this model's cells (`Err.attr`
marks "outside the model"; never generated). -/
def wrapStep : PV R → Except Err (List (List R))
  | .vec l => .ok (l.map ([·]))
  | .sc _ => .error .type
  | .mat _ => .error .attr

/-- `list(zip(*step))` of a step taken as it is -/
def transStep : PV R → Except Err (List (List R))
  | .mat rows => .ok (zipStar rows)
  | .vec [] => .ok []
  | .vec (_ :: _) => .error .type
  | .sc _ => .error .type

/-- `raw_to_converge(steps, energy)[0]` for arbitrary recorded values -/
def rawToConvergePV (steps : List (PV R)) : Except Err (List (List (List R))) :=
  match steps with
  | [] => .ok []
  | .sc _ :: _ => .error .type                    -- `steps[0][0]`: a float is not subscriptable
  | .vec [] :: _ => .error .index                 -- `steps[0][0]` of an empty list
  | .mat [] :: _ => .error .index
  | .vec (_ :: _) :: _ => steps.mapM wrapStep     -- `not sequence(steps[0][0])`: wrap every step
  | .mat (_ :: _) :: _ => steps.mapM transStep

/-- `raw_to_support(steps, energy)[0]` -/
def rawToSupportPV (steps : List (PV R)) : Except Err (List (List (List R))) :=
  match rawToConvergePV steps with
  | .ok c => .ok (convergeToSupport c)
  | .error e => .error e

/-- `_process_ids(ids, n)` for a list of `(iteration,)` / `(iteration, id)` tuples (l.178-188): unchanged, cut to `n` -/
def processIdsT (ids : List Step) (n : Nat) : List Step :=
  match ids with
  | [] => (List.range n).map (fun i => { i := i, id := none })     -- `if not len(ids)`
  | _ => ids.take n

/-- `_process_ids(mon.id, n)` for the id LIST of a monitor (`read_trajectories(monitor, iter=True)`, l.149) -/
def processIdsL (ids : List (Option Int)) (n : Nat) : List Step :=
  match ids with
  | [] => (List.range n).map (fun i => { i := i, id := none })
  | l =>
    if l.all (· == none) then (((countIds [] l).map (fun s => { s with id := none })).take n)
    else (countIds [] l).take n

/-- the rows a `LoggingMonitor` appends to its file over a sequence of calls `(x, y, id)` -/
def logRun [Mul R] [Div R] (m : Mon R) : List (PV R × PV R × Option Int) → List (LogRec R)
  | [] => []
  | c :: cs => (m.logOf c.1 c.2.1 c.2.2).toList ++ logRun (m.call c.1 c.2.1 c.2.2) cs

/-- `read_history(logfile, iter=True)` (l.79-82): the logged `(iteration[, id])` tuples through `_process_ids`,
the logged parameters through `raw_to_support` -/
def readLogHistory (rows : List (LogRec R)) : Except Err (List Step × List (List (List R))) :=
  match rawToSupportPV (rows.map (·.x)) with
  | .ok p => .ok (processIdsT (rows.map (fun r => { i := r.step, id := r.id.map some })) rows.length, p)
  | .error e => .error e

/-! ### the id column of a parameter file, and the matching readers -/

/-- the id of one entry of the `iter` list as a caller reads it: `s[1] if len(s) > 1 else None` -/
def Step.idOf (s : Step) : Option Int :=
  match s.id with
  | none => none
  | some j => j

/-- the id column of what `read_raw_file(f, iter=True)` returns for a file of `n` records (`None`, returned for a
file without records, has no entries) -/
def idColumn (ids : Option (List Step)) (n : Nat) : List (Option Int) :=
  match ids with
  | none => List.replicate n none
  | some l => l.map Step.idOf

/-- the iteration number an entry of a trajectory with ids carries: the number of EARLIER entries recorded with
the same id (one counter per id: `[0, 1, 1, 0]` gives `0, 0, 1, 1`; a single id gives `0, 1, 2, ...`) -/
def perIdIter (ids : List (Option Int)) : List Nat :=
  (List.range ids.length).map (fun i => (ids.take i).count (ids.getD i none))

/-- `read_support_file(f, iter=True)` (munge.py l.403-420) = `read_raw_file` followed by `raw_to_support` on the
parameters AS THEY ARE IN THE FILE (a table of 1-tuples: every row a `.mat`) -/
def readSupportParams (table : List (List (List R))) : Except Err (List (List (List R))) :=
  rawToSupportPV (table.map PV.mat)

/-- `read_converge_file(f, iter=True)` (l.396-400) = `read_raw_file` followed by `raw_to_converge` -/
def readConvergeParams (table : List (List (List R))) : Except Err (List (List (List R))) :=
  rawToConvergePV (table.map PV.mat)

/-- `write_support_file(m, f); read_support_file(f, iter=True)` -/
def Mon.supportRoundTrip [Mul R] [Div R] (m : Mon R) : Option (Except Err (RawFile R (List (List (List R))))) :=
  match m.writeSupport with
  | none => none
  | some f =>
    match readSupportParams f.params with
    | .ok p => some (.ok { ids := f.ids, params := p, cost := f.cost })
    | .error e => some (.error e)

/-- `write_converge_file(m, f); read_converge_file(f, iter=True)` -/
def Mon.convergeRoundTrip [Mul R] [Div R] (m : Mon R) : Option (Except Err (RawFile R (List (List (List R))))) :=
  match m.writeConverge with
  | none => none
  | some f =>
    match readConvergeParams f.params with
    | .ok p => some (.ok { ids := f.ids, params := p, cost := f.cost })
    | .error e => some (.error e)

end MysticVerif.Mon
