/-
Model of `mystic.constraints.and_ / or_ / not_` (constraints.py l.521-721) and of the
couplers / penalty combinators of `mystic.coupler`.

The history list `x` of the code is kept newest-first (`h.head = x[-1]`).
A member is `X → Option X`; `none` stands for the `ZeroDivisionError` branch
(the code then appends a copy of its input and sets `e`).
Random replacement is a parameter `rand : D → X → X` fed from a draw stream;
the stream running dry is the explicit result `.stuck` (never defaulted).
No Mathlib imports: this file is linked into `mvdrv`.
-/

namespace MysticVerif.Comb

inductive Res (X : Type) where
  /-- success path (`onexit`): returned vector, step index of the newest entry, ghost link count -/
  | success (y : X) (t : Nat) (links : Nat)
  /-- failure path (`onfail`) after the iteration cap -/
  | fail (y : X)
  /-- the supplied draw stream ran dry (driver artefact, not a behaviour of the code) -/
  | stuck
  deriving Repr, DecidableEq

variable {X D : Type}

/-- one member application as the code performs it: `(appended entry, e is not None)` -/
def applyM (c : X → Option X) (x : X) : X × Bool :=
  match c x with
  | some y => (y, false)
  | none => (x, true)

/-- `all(xi == x[-1] for xi in x[-n:])` on the newest-first history -/
def lastAllEq [BEq X] (n : Nat) (h : List X) (y : X) : Bool := (h.take n).all (· == y)

/-- statistics the correspondence compares: member calls, draws consumed -/
structure Stats where
  calls : Nat := 0
  draws : Nat := 0
  deriving Repr, DecidableEq

/-! ### `and_` -/

/-- the first pass `for c in constraints` (steps `t = i .. n-1`); returns history, `e`, links -/
def andFirst (c : Nat → X → Option X) (n : Nat) : (k : Nat) → (i : Nat) → List X → X → Bool → Nat →
    List X × X × Bool × Nat
  | 0, _, h, top, e, links => (h, top, e, links)
  | k + 1, i, h, top, e, links =>
    let ye := applyM (c (i % n)) top
    andFirst c n k (i + 1) (top :: h) ye.1 (e || ye.2) (if ye.2 = true then 0 else links + 1)

/-- `x[-1] == x[-(n+1)]` where `h1` holds the entries older than `y = x[-1]`, newest first -/
def cycHit [BEq X] (n : Nat) (h1 : List X) (y : X) : Bool :=
  match h1[n - 1]? with
  | some z => y == z
  | none => false

/-- `if not j%(2*n): del x[:n]` on the entries older than the newest one -/
def dropOld (n j : Nat) (l : List X) : List X :=
  if j % (2 * n) = 0 then l.take (l.length - n) else l

/-- the cycling phase `for j in range(n, maxiter)`; `top` is `x[-1]`, `h` the older entries (newest first) -/
def andCycle [BEq X] (c : Nat → X → Option X) (rand : D → X → X) (n cap : Nat) :
    (fuel : Nat) → (j : Nat) → (h : List X) → (top : X) → (links : Nat) → List D → Stats → Res X × Stats
  | 0, _, _, top, _, _, st => (.fail top, st)
  | fuel + 1, j, h, top, links, draws, st =>
    if cap ≤ j then (.fail top, st) else
    let ye := applyM (c (j % n)) top
    let st := { st with calls := st.calls + 1 }
    let links1 := if ye.2 = true then 0 else links + 1
    if (!ye.2 && lastAllEq (n - 1) (top :: h) ye.1) = true then (.success ye.1 j links1, st) else
    if cycHit n (top :: h) ye.1 = true then
      match draws with
      | [] => (.stuck, st)
      | d :: ds =>
        let r := rand d ye.1
        let links2 := if (r == ye.1) = true then links1 else 0
        andCycle c rand n cap fuel (j + 1) (dropOld n j (top :: h)) r links2 ds { st with draws := st.draws + 1 }
    else
      andCycle c rand n cap fuel (j + 1) (dropOld n j (top :: h)) ye.1 links1 draws st

/-- `constraints.and_(*c, maxiter=m)(x)` with `cap = m * n` -/
def and_ [BEq X] (c : Nat → X → Option X) (rand : D → X → X) (n cap : Nat) (x : X) (draws : List D) :
    Res X × Stats :=
  if n = 0 then (.success x 0 0, {}) else
  let fp := andFirst c n n 0 [] x false 0      -- (h, top, e, links)
  let st : Stats := { calls := n }
  -- `all(xi == x[-1] for xi in x[1:])` : the n outputs (top and the n-1 newest of h)
  if (!fp.2.2.1 && lastAllEq (n - 1) fp.1 fp.2.1) = true then (.success fp.2.1 (n - 1) fp.2.2.2, st) else
  andCycle c rand n cap (cap - n) n fp.1 fp.2.1 fp.2.2.2 draws st

/-! ### `or_` -/

/-- first pass of `or_`: every member applied to `x[0]`, success as soon as one leaves it unchanged.
    Returns `some y` on success, else the history (newest first) -/
def orFirst [BEq X] (c : Nat → X → Option X) (x0 : X) : (k : Nat) → (i : Nat) → List X → Bool → Nat →
    Option X × List X × Nat
  | 0, _, h, _, calls => (none, h, calls)
  | k + 1, i, h, e, calls =>
    let ye := applyM (c i) x0
    let e := e || ye.2                       -- `e` is never reset inside the first loop
    if (ye.1 == x0 && !e) = true then (some ye.1, ye.1 :: h, calls + 1)
    else orFirst c x0 k (i + 1) (ye.1 :: h) e (calls + 1)

/-- `if not j%(2*n): del x[:n]` on the complete history -/
def dropOldAll (n j : Nat) (l : List X) : List X :=
  if j % (2 * n) = 0 then l.take (l.length - n) else l

/-- cycling phase of `or_`; `pick : D → Nat` is `rnd.randint(1,n)`; history newest first, complete -/
def orCycle [BEq X] (c : Nat → X → Option X) (pick : D → Nat) (n cap : Nat) :
    (fuel : Nat) → (j : Nat) → (h : List X) → List D → Stats → Res X × Stats
  | 0, _, h, _, st => (match h with | y :: _ => .fail y | [] => .stuck, st)
  | fuel + 1, j, h, draws, st =>
    match h with
    | [] => (.stuck, st)
    | top :: _ =>
    if cap ≤ j then (.fail top, st) else
    match h[n - 1]? with                      -- x[-n]
    | none => (.stuck, st)
    | some src =>
    let ye := applyM (c (j % n)) src
    let st := { st with calls := st.calls + 1 }
    -- after the append, x[-(n+1)] is the old x[-n] = src
    if (ye.1 == src && !ye.2) = true then (.success ye.1 j 1, st) else
    match draws with
    | [] => (.stuck, st)
    | d :: ds =>
      -- `x[-1] = x[-rnd.randint(1,n)]`, evaluated after the append
      match (ye.1 :: h)[pick d - 1]? with
      | none => (.stuck, st)
      | some r => orCycle c pick n cap fuel (j + 1) (dropOldAll n j (r :: h)) ds { st with draws := st.draws + 1 }

def or_ [BEq X] (c : Nat → X → Option X) (pick : D → Nat) (n cap : Nat) (x : X) (draws : List D) :
    Res X × Stats :=
  match orFirst c x n 0 [x] false 0 with
  | (some y, _, calls) => (.success y 0 1, { calls := calls })
  | (none, h, calls) => orCycle c pick n cap (cap - n) n h draws { calls := calls }

/-! ### `not_` -/

/-- `not (constraint(x[:]) != x)`; a `ZeroDivisionError` counts as "not moved" -/
def notMoved [BEq X] (c : X → Option X) (x : X) : Bool :=
  match c x with
  | some y => y == x
  | none => true

def notLoop [BEq X] (c : X → Option X) (rand : D → X → X) :
    (fuel : Nat) → X → List D → Stats → Res X × Stats
  | 0, x, _, st => (.fail x, st)
  | fuel + 1, x, draws, st =>
    let st := { st with calls := st.calls + 1 }
    if notMoved c x = false then (.success x 0 0, st) else
    match draws with
    | [] => (.stuck, st)
    | d :: ds => notLoop c rand fuel (rand d x) ds { st with draws := st.draws + 1 }

/-- `constraints.not_(c, maxiter=m)(x)` -/
def not_ [BEq X] (c : X → Option X) (rand : D → X → X) (maxiter : Nat) (x : X) (draws : List D) :
    Res X × Stats := notLoop c rand maxiter x draws {}

/-! ### couplers (coupler.py) -/

def inner {A B C : Type} (c : A → B) (f : B → C) (x : A) : C := f (c x)
def outer {A B C : Type} (c : B → C) (f : A → B) (x : A) : C := c (f x)
def additive {A R : Type} [Add R] (p : A → R) (f : A → R) (x : A) : R := f x + p x

end MysticVerif.Comb
