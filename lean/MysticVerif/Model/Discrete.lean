/-
Model of the discrete-measure containers of `mystic.math.discrete` (point_mass / measure /
product_measure / scenario, module functions compose / decompose / unflatten / flatten) and of the
helpers of `mystic.math.measures` they delegate to (`_pack`, `_unpack`, `_nested`, `_flat`,
`_nested_split`, `mean`, `moment`, `expectation`, `_expected_moment`, `support`, `support_index`,
`spread`, `impose_mean`, `impose_spread`, `impose_variance`, `normalize`, `impose_collapse`,
`impose_unweighted`) and of `mystic.constraints.impose_measure`.

A point mass is `⟨weight, position⟩`; a measure is a list of point masses; a product measure is a list
of measures; a scenario is a product measure with a list of values.  Structural functions are generic in
the payload type; numeric ones only assume *operations* (no laws), so the driver runs them at `Float`
(bit-exact with CPython/numpy for sequential `+ - * /`) and the theorems at an ordered field.
Python exceptions are the `none` results (`IndexError` / `ValueError`; the driver names them).
No Mathlib imports: this file is linked into `mvdrv`.
-/

namespace MysticVerif.Discrete

structure PtMass (α : Type) where
  weight : α
  position : α
  deriving Repr, DecidableEq

abbrev Measure (α : Type) := List (PtMass α)
abbrev PM (α : Type) := List (Measure α)

/-- `scenario`: a product measure with `values` (`self.__Y`) -/
structure Scen (α : Type) where
  pm : PM α
  values : List α
  deriving Repr, DecidableEq

section struct
variable {α : Type}

/-- `measure.weights` / `measure.positions` (discrete.py l.91-95) -/
def mweights (m : Measure α) : List α := m.map (·.weight)
def mpositions (m : Measure α) : List α := m.map (·.position)

/-- `product_measure.pts / wts / pos` (l.439-446) -/
def pts (c : PM α) : List Nat := c.map List.length
def wts (c : PM α) : List (List α) := c.map mweights
def pos (c : PM α) : List (List α) := c.map mpositions

/-- `flatten(c)` (l.1521): `[(i.weights, i.positions) for i in c]` chained twice -/
def flatten (c : PM α) : List α := c.flatMap fun m => mweights m ++ mpositions m

/-- `_nested(params, npts)` (measures.py l.1958): `params[ind:ind+n]` with a running `ind`
    (written by consuming the list: `params[ind:ind+n] = (params.drop ind).take n`) -/
def nested (params : List α) : List Nat → List (List α)
  | [] => []
  | n :: ns => params.take n :: nested (params.drop n) ns

/-- `_flat(params)` (l.1942) on a list of lists -/
def flat (p : List (List α)) : List α := p.flatten

/-- `_nested_split(params, npts)` (l.1980): returns `(weights, coords)` -/
def nestedSplit (params : List α) : List Nat → List (List α) × List (List α)
  | [] => ([], [])
  | n :: ns =>
    let r := nestedSplit (params.drop (n + n)) ns
    (params.take n :: r.1, (params.drop n).take n :: r.2)

/-- inner loop of `_list_of_measures` (l.1479): `point_mass(samples[i][j], weights[i][j])` for every
    `j < len(samples[i])`; a missing weight is an `IndexError`, surplus weights are ignored -/
def zipMeasure : List α → List α → Option (Measure α)
  | [], _ => some []
  | _ :: _, [] => none
  | x :: xs, w :: ws => (zipMeasure xs ws).map (⟨w, x⟩ :: ·)

/-- `_list_of_measures(samples, weights)` (l.1470) with `weights` given -/
def listOfMeasures : List (List α) → List (List α) → Option (PM α)
  | [], _ => some []
  | _ :: _, [] => none
  | s :: ss, w :: ws =>
    match zipMeasure s w, listOfMeasures ss ws with
    | some m, some r => some (m :: r)
    | _, _ => none

/-- `compose(samples, weights)` (l.1485) for a truthy `weights` argument, or `samples = []`
    (`if not weights` only fires for `weights = []`/`None`: see `composeU` for the uniform weights) -/
def compose (samples weights : List (List α)) : Option (PM α) := listOfMeasures samples weights

/-- `unflatten(params, npts)` (l.1512); (`w = []` only when `npts = ()`, and then `x = []` too) -/
def unflatten (params : List α) (npts : List Nat) : Option (PM α) :=
  let wx := nestedSplit params npts
  compose wx.2 wx.1

/-- `decompose(c)` (l.1495): `(x, w)` -/
def decompose (c : PM α) : List (List α) × List (List α) :=
  let wx := nestedSplit (flatten c) (pts c)
  (wx.2, wx.1)

/-- `_len = 2*sum(pts); if len(params) > _len: params = params[:_len]` -/
def truncParams (params : List α) (p : List Nat) : List α :=
  if params.length > 2 * p.sum then params.take (2 * p.sum) else params

/-- the part after `_len` (the Y-values), `[]` when `len(params) <= _len` -/
def extraParams (params : List α) (p : List Nat) : List α :=
  if params.length > 2 * p.sum then params.drop (2 * p.sum) else []

/-- `product_measure.load(params, pts)` (l.950): `self.extend(unflatten(params, pts))` -/
def load (self : PM α) (params : List α) (p : List Nat) : Option (PM α) :=
  (unflatten (truncParams params p) p).map (self ++ ·)

/-- `product_measure.update(params)` (l.917):
    `zo = pm.count([]); self[:] = pm[:len(self)-zo] + self[len(pm)-zo:]` -/
def update (self : PM α) (params : List α) : Option (PM α) :=
  (unflatten (truncParams params (pts self)) (pts self)).map fun pm =>
    let zo := pm.countP List.isEmpty
    pm.take (self.length - zo) ++ self.drop (pm.length - zo)

/-- `scenario.load` (l.1372): as `load`, the surplus parameters REPLACE `values` (only if there are any) -/
def sload (self : Scen α) (params : List α) (p : List Nat) : Option (Scen α) :=
  (load self.pm params p).map fun pm =>
    { pm := pm, values := if params.length > 2 * p.sum then extraParams params p else self.values }

/-- `scenario.update` (l.1338): `self.values = values[:len(self.values)] + self.values[len(values):]` -/
def supdate (self : Scen α) (params : List α) : Option (Scen α) :=
  (update self.pm params).map fun pm =>
    let v := extraParams params (pts self.pm)
    { pm := pm,
      values := if params.length > 2 * (pts self.pm).sum
                then v.take self.values.length ++ self.values.drop v.length else self.values }

/-- `scenario.flatten(all)` (l.1403) -/
def sflatten (s : Scen α) (all : Bool) : List α :=
  if all = true then flatten s.pm ++ s.values else flatten s.pm

/-- `scenario(pm, values)` (l.1089): `if pm: self.load(pm.flatten(), pm.pts)`; `if not values: values = []` -/
def mkScen (pm : PM α) (values : List α) : Option (Scen α) :=
  if pm.isEmpty then some { pm := [], values := values }
  else (load [] (flatten pm) (pts pm)).map fun c => { pm := c, values := values }

/-! ### `_pack` / `_unpack` (measures.py l.1858-1939) -/

/-- `_pack(samples)`: `recurse(ndim-1)` loops over the LAST factor outermost and factor 0 innermost,
    so the first factor varies fastest; `_pack([]) = [()]` -/
def pack : List (List α) → List (List α)
  | [] => [[]]
  | s :: rest => (pack rest).flatMap fun t => s.map fun x => x :: t

/-- `[j[i] for j in samples]` where every tuple has an entry `i` (guarded by `colOk`) -/
def col (i : Nat) (P : List (List α)) : List α := P.filterMap (·[i]?)
def colOk (i : Nat) (P : List (List α)) : Bool := P.all fun t => i < t.length

/-- python `l[:stop:step]` for `step > 0`: the entries `l[k*step]`, `k*step < min stop (len l)` -/
def strided (l : List α) (stop step : Nat) : List α :=
  (List.range ((min stop l.length + step - 1) / step)).filterMap fun k => l[k * step]?

/-- the recursion `recurse(next)` of `_unpack`: `temp[next] = temp[next-1]*npts[next]`,
    `[j[next] for j in samples][:temp[next]:temp[next-1]]` -/
def unpackGo (P : List (List α)) : (next last : Nat) → List Nat → List (List α)
  | _, _, [] => []
  | next, last, n :: ns => strided (col next P) (last * n) last :: unpackGo P (next + 1) (last * n) ns

/-- total core of `_unpack(samples, npts)` (no guards) -/
def unpackCore (P : List (List α)) : List Nat → List (List α)
  | [] => []
  | n0 :: ns => (col 0 P).take n0 :: unpackGo P 1 n0 ns

inductive Err where
  | index | value
  deriving Repr, DecidableEq

/-- guards of `unpackGo`: `j[next]` exists for every tuple (`IndexError`), slice step non-zero (`ValueError`) -/
def unpackGuard (P : List (List α)) : (next last : Nat) → List Nat → Option Err
  | _, _, [] => none
  | next, last, n :: ns =>
    if colOk next P = false then some .index
    else if last = 0 then some .value
    else unpackGuard P (next + 1) (last * n) ns

/-- `_unpack(samples, npts)` with the exceptions of the code: `npts[0]` on an empty `npts` and a tuple
    shorter than `ndim` are `IndexError`s, a zero factor size before the last one is a zero slice step -/
def unpack (P : List (List α)) (npts : List Nat) : Except Err (List (List α)) :=
  match npts with
  | [] => .error .index
  | n0 :: ns =>
    if colOk 0 P = false then .error .index
    else match unpackGuard P 1 n0 ns with
      | some e => .error e
      | none => .ok (unpackCore P npts)

/-- `product_measure.positions = positions` (l.498): `_unpack`, then `self[i].positions = positions[i]`
    for `i < len(positions)`; `measure.positions = p` sets `self[i].position = p[i]` for `i < len(p)`
    (an index past the measure is an `IndexError`) -/
def setMPositions : Measure α → List α → Option (Measure α)
  | m, [] => some m
  | [], _ :: _ => none
  | pm :: m, x :: xs => (setMPositions m xs).map ({ pm with position := x } :: ·)

def setMWeights : Measure α → List α → Option (Measure α)
  | m, [] => some m
  | [], _ :: _ => none
  | pm :: m, w :: ws => (setMWeights m ws).map ({ pm with weight := w } :: ·)

def setPositionsGo : PM α → List (List α) → Option (PM α)
  | c, [] => some c
  | [], _ :: _ => none
  | m :: c, p :: ps =>
    match setMPositions m p, setPositionsGo c ps with
    | some m', some c' => some (m' :: c')
    | _, _ => none

def setPositions (c : PM α) (P : List (List α)) : Except Err (PM α) :=
  match unpack P (pts c) with
  | .error e => .error e
  | .ok ps => match setPositionsGo c ps with
    | some c' => .ok c'
    | none => .error .index

/-- `product_measure.positions` (l.494) -/
def positions (c : PM α) : List (List α) := pack (pos c)

/-- `product_measure.npts` (l.457): `prod(self.pts)` -/
def npts (c : PM α) : Nat := (pts c).foldl (· * ·) 1

end struct

/-! ### numeric part -/

section num
variable {R : Type} [Add R] [Sub R] [Mul R] [Div R] [Neg R] [LT R] [DecidableLT R] [LE R] [DecidableLE R]
  [OfNat R 0] [OfNat R 1] [BEq R]

/-- sequential `sum` (python `sum` starts from the int `0`; `0 + x` and `0.0 + x` agree on floats) -/
def sumL (l : List R) : R := l.foldl (· + ·) 0

/-- `numpy.prod` of a tuple: sequential product (`prod(()) = 1.0`; `1 * x = x` exactly) -/
def prodL (l : List R) : R := l.foldl (· * ·) 1

/-- `product_measure.weights` (l.485): `[prod(wts) for wts in _pack(self.wts)]` -/
def weights (c : PM R) : List R := (pack (wts c)).map prodL

/-- `product_measure.mass` (l.511): `[sum(m.weights) for m in self]` -/
def mass (c : PM R) : List R := c.map fun m => sumL (mweights m)

/-- python truthiness of a number: `x != 0` (NaN is truthy) -/
def truthy (x : R) : Bool := !(x == 0)

/-- `normalize([1.]*n, 1.0)` (measures.py l.1329, `_uniform_weights` discrete.py l.1457):
    `w = sum(abs(ones)); u = ones / w; m = sum(u); (1.0 * u) / m` (numpy sums: sequential for n <= 8) -/
def uniformWeights (n : Nat) : List R :=
  let ones := List.replicate n (1 : R)
  let w := sumL ones
  if truthy w = false then ones.map (· * 0) else
  let u := ones.map (· / w)
  let m := sumL u
  if truthy m = false then ones.map (· * 0) else (u.map (1 * ·)).map (· / m)

/-- `compose(samples)` with `weights=None` -/
def composeU (samples : List (List R)) : Option (PM R) :=
  listOfMeasures samples (samples.map fun s => uniformWeights s.length)

/-- `abs` as far as the comparisons below can see it (`-0.0`/NaN compare like `fabs` does) -/
def absR (x : R) : R := if x < 0 then -x else x

/-- `mean(samples, weights, tol=0)` (measures.py l.276) with `weights` given; `inf` is `numpy.inf` -/
def mean (inf : R) (samples ws : List R) : R :=
  let ssum := sumL (List.zipWith (· * ·) samples ws)
  let w := sumL ws
  if truthy w = true then
    let q := ssum / w
    if absR q ≤ 0 then 0 else q
  else ssum * inf

/-- `moment(samples, weights, order=2, tol=0)` (l.326): `(s - _mean)**2` is `(s-_mean)*(s-_mean)` -/
def moment2 (inf : R) (samples ws : List R) : R :=
  let m := mean inf samples ws
  mean inf (samples.map fun s => (s - m) * (s - m)) ws

/-- the `(f(x), w)` pairs kept by `expectation` / `_expected_moment` (l.207-210, tol = 0.0);
    `((0.0, 0.0),)` when no weight survives -/
def keptYW (f : List R → R) (P : List (List R)) (ws : List R) : List (R × R) :=
  let k := (List.zip P ws).filter fun xw => decide (0 < absR xw.2)
  if k.isEmpty then [(0, 0)] else k.map fun xw => (f xw.1, xw.2)

/-- `expectation(f, samples, weights)` (l.187) -/
def expectation (inf : R) (f : List R → R) (P : List (List R)) (ws : List R) : R :=
  let yw := keptYW f P ws
  mean inf (yw.map (·.1)) (yw.map (·.2))

/-- `expected_variance(f, samples, weights)` (l.245) -/
def expectedVariance (inf : R) (f : List R → R) (P : List (List R)) (ws : List R) : R :=
  let yw := keptYW f P ws
  moment2 inf (yw.map (·.1)) (yw.map (·.2))

/-- `product_measure.expect / expect_var` (l.583-605) -/
def expect (inf : R) (c : PM R) (f : List R → R) : R := expectation inf f (positions c) (weights c)
def expectVar (inf : R) (c : PM R) (f : List R → R) : R := expectedVariance inf f (positions c) (weights c)

/-- `product_measure.pof(f)` (l.746): `u += w` for every point with `f(x) <= 0.0` -/
def pofL (f : List R → R) (P : List (List R)) (ws : List R) : R :=
  (List.zip P ws).foldl (fun u xw => if f xw.1 ≤ 0 then u + xw.2 else u) 0
def pof (c : PM R) (f : List R → R) : R := pofL f (positions c) (weights c)

/-- `support_index(weights, tol)` / `support(samples, weights, tol)` (l.301-324): `w > tol` -/
def supportIndexL (ws : List R) (tol : R) : List Nat :=
  (List.range ws.length).filter fun i => match ws[i]? with | some w => decide (tol < w) | none => false
/-- `[samples[i] for (i,w) in enumerate(weights) if w > tol]`: a supported index past `samples` is an IndexError -/
def supportL {β : Type} : List β → List R → R → Option (List β)
  | _, [], _ => some []
  | [], w :: ws, tol => if tol < w then none else supportL [] ws tol
  | x :: xs, w :: ws, tol => if tol < w then (supportL xs ws tol).map (x :: ·) else supportL xs ws tol
def supportIndex (c : PM R) (tol : R) : List Nat := supportIndexL (weights c) tol
def support (c : PM R) (tol : R) : Option (List (List R)) := supportL (positions c) (weights c) tol

/-! #### one measure: center_mass / range / var and their setters (discrete.py l.105-149) -/

/-- python `max(l)` / `min(l)`: the first extremal entry is kept -/
def maxL : List R → Option R
  | [] => none
  | a :: l => some (l.foldl (fun m x => if m < x then x else m) a)
def minL : List R → Option R
  | [] => none
  | a :: l => some (l.foldl (fun m x => if x < m then x else m) a)

/-- `spread(samples)` (l.62) -/
def spread (l : List R) : Option R :=
  match maxL l, minL l with
  | some a, some b => some (a - b)
  | _, _ => none

def centerMass (inf : R) (m : Measure R) : R := mean inf (mpositions m) (mweights m)
def variance (inf : R) (m : Measure R) : R := moment2 inf (mpositions m) (mweights m)
def range (m : Measure R) : Option R := spread (mpositions m)

/-- `impose_mean(m, samples, weights)` (l.414) -/
def imposeMean (inf : R) (m : R) (xs ws : List R) : List R :=
  let shift := m - mean inf xs ws
  xs.map (· + shift)

/-- `impose_spread(r, samples, weights)` (l.548); `none` = `max([])` ValueError -/
def imposeSpread (inf nan : R) (r : R) (xs ws : List R) : Option (List R) :=
  let m := mean inf xs ws
  match spread xs with
  | none => none
  | some sr =>
    if truthy sr = false then some (xs.map fun _ => nan)
    else
      let scale := r / sr
      some (imposeMean inf m (xs.map (· * scale)) ws)

/-- `impose_variance(v, samples, weights)` (l.436); `sqrt` is a parameter -/
def imposeVariance (inf nan : R) (sqrt : R → R) (v : R) (xs ws : List R) : List R :=
  let m := mean inf xs ws
  let sv := moment2 inf xs ws
  if truthy sv = false then (if truthy v = false then xs else xs.map fun _ => nan)
  else
    let scale := sqrt (v / sv)
    imposeMean inf m (xs.map (· * scale)) ws

/-- `measure.positions = p` where `len p = len self` (the setters always pass a list of that length) -/
def withPositions (m : Measure R) (p : List R) : Measure R :=
  List.zipWith (fun pm x => { pm with position := x }) m p

def setCenterMass (inf : R) (m : Measure R) (v : R) : Measure R :=
  withPositions m (imposeMean inf v (mpositions m) (mweights m))
def setRange (inf nan : R) (m : Measure R) (r : R) : Option (Measure R) :=
  (imposeSpread inf nan r (mpositions m) (mweights m)).map (withPositions m)
def setVar (inf nan : R) (sqrt : R → R) (m : Measure R) (v : R) : Measure R :=
  withPositions m (imposeVariance inf nan sqrt v (mpositions m) (mweights m))

/-! #### `constraints.impose_measure` (constraints.py l.1758) and the `measures` functions it calls -/

/-- `normalize(weights, mass)` (measures.py l.1329) for a numeric `mass`, `zsum=False` -/
def normalizeMass (mass : R) (ws : List R) : List R :=
  let a := sumL (ws.map absR)
  if truthy a = false then ws.map (· * 0) else
  let u := ws.map (· / a)
  let m := sumL u
  if truthy m = false then ws.map (· * 0) else (u.map (mass * ·)).map (· / m)

/-- inner loop body of `impose_collapse` (measures.py l.1792-1795) for one member `k` of the group of `i`
    (`xi = samples[i]`): `v += weights[k]; weights[k] = 0; samples[k] = samples[i]`; state `(v, samples, weights)` -/
def collapseStep (xi : R) (acc : R × List R × List R) (k : Nat) : R × List R × List R :=
  match acc.2.2[k]? with
  | some wk => (acc.1 + wk, acc.2.1.set k xi, acc.2.2.set k 0)
  | none => acc

/-- one group `i: {k..}` of `connected(pairs)` in `impose_collapse` (l.1790-1796):
    `v = w[i]; for k: v += w[k]; w[k] = 0; x[k] = x[i]; w[i] = v` -/
def collapseGroup (xw : List R × List R) (g : Nat × List Nat) : List R × List R :=
  match xw.1[g.1]?, xw.2[g.1]? with
  | some xi, some wi =>
    let r := g.2.foldl (collapseStep xi) (wi, xw.1, xw.2)
    (r.2.1, r.2.2.set g.1 r.1)
  | _, _ => xw

/-- `impose_collapse(pairs, samples, weights)` (l.1763) with the pairs already grouped by `connected` -/
def imposeCollapse (inf : R) (groups : List (Nat × List Nat)) (xs ws : List R) : List R × List R :=
  let m := mean inf xs ws
  let r := groups.foldl collapseGroup (xs, ws)
  (imposeMean inf m r.1 r.2, r.2)

/-- `impose_unweighted(index, samples, weights, nullable=False)` (l.1733) -/
def imposeUnweighted (inf : R) (index : List Nat) (xs ws : List R) : List R × List R :=
  let m := mean inf xs ws
  let n := sumL ws
  let w1 := ws.mapIdx fun i w => if index.contains i then 0 else w
  let w2 := if truthy (sumL w1) = false then ws.mapIdx (fun i _ => if index.contains i then 0 else 1) else w1
  let w3 := normalizeMass n w2
  (imposeMean inf m xs w3, w3)

def rebuild (xw : List R × List R) : Measure R := List.zipWith (fun x w => ⟨w, x⟩) xw.1 xw.2

/-- one `c[k].positions, c[k].weights = impose_collapse(v, c[k].positions, c[k].weights)` (constraints.py l.1814) -/
def collapseAt (inf : R) (c : PM R) (kv : Nat × List (Nat × List Nat)) : PM R :=
  c.modify kv.1 fun m => rebuild (imposeCollapse inf kv.2 (mpositions m) (mweights m))

/-- one `c[k].positions, c[k].weights = impose_unweighted(v, c[k].positions, c[k].weights, False)` (l.1818) -/
def unweightAt (inf : R) (c : PM R) (kv : Nat × List Nat) : PM R :=
  c.modify kv.1 fun m => rebuild (imposeUnweighted inf kv.2 (mpositions m) (mweights m))

/-- l.1812-1819: all collapses of `tracking` in order, then all of `noweight` in order -/
def imposeOn (inf : R) (tracking : List (Nat × List (Nat × List Nat))) (noweight : List (Nat × List Nat))
    (c : PM R) : PM R :=
  noweight.foldl (unweightAt inf) (tracking.foldl (collapseAt inf) c)

/-- the body of `impose_measure(npts, tracking, noweight)(f)` before `f` (l.1808-1821): load, collapse,
    unweight, flatten -/
def imposeMeasure (inf : R) (npts : List Nat) (tracking : List (Nat × List (Nat × List Nat)))
    (noweight : List (Nat × List Nat)) (x : List R) : Option (List R) :=
  (load [] x npts).map fun c => flatten (imposeOn inf tracking noweight c)

end num

end MysticVerif.Discrete
