/-
Model of `mystic/termination.py` (pinned tree): the primitive termination conditions
(l.181-451), the compound conditions `When / And / Or` (l.62-176: constructor normalisation
`__new__` and the three call modes `info=False / True / 'self'`, plus `'not'`), and the
introspection `state / type` (l.30-58).

Everything is generic in the scalar `R` (operations only).  The driver runs it at `Float`
(bit-identical to CPython/numpy binary64 for `+ - *` and comparisons), the theorems at an
arbitrary linearly ordered field.  No Mathlib imports: this file is linked into `mvdrv`.

Conventions
* `energy_history` is `View.hist` oldest first, so `hist[-1]` is `getLast`; Python indexing
  `hist[-g]` is `pyGet? hist (-g)` (so `g = 0` reads the FIRST entry, as the code does).
* `generations` settings are `Option Int`: `none` is Python `None` (-> 0, l.211), a float setting
  is passed after Python's `int()` (done by the harness).
* A primitive returns `POut.sat` (its doc / `True`), `.unsat` (`""` / `False`) or `.warn`
  (`CandidateRelativeTolerance` with fewer than two candidates returns a non-empty warning
  string whatever `info` is, l.252-255 - truthy).
* A primitive is identified inside a compound by `oid` (object identity: dict keys of `stop` are the
  function objects) and `did` (its doc string: the info string is a SET of doc strings).
-/
import MysticVerif.Model.Collapse

namespace MysticVerif.Term

/-! ### Python helpers -/

/-- Python `l[i]` for an `int` index (`none` = `IndexError`) -/
def pyGet? {α : Type} (l : List α) (i : Int) : Option α :=
  if i < 0 then
    (if i + (l.length : Int) < 0 then none else l[(i + (l.length : Int)).toNat]?)
  else l[i.toNat]?

section Scalar
variable {R : Type} [Add R] [Sub R] [Mul R] [Div R] [Neg R] [LT R] [DecidableLT R] [LE R] [DecidableLE R]
  [BEq R] [OfNat R 0] [OfNat R 2]

/-- `numpy.absolute` on a scalar (NaN stays NaN; the sign of zero is not observable through `<=`) -/
def absR (x : R) : R := if x < 0 then -x else x

/-- builtin `max(iterable)`: keeps the first element, replaces it when `item > max` (`none` = `ValueError`) -/
def pyMax? : List R → Option R
  | [] => none
  | x :: xs => some (xs.foldl (fun m y => if m < y then y else m) x)

/-- `numpy.max` of a non-empty 1-D array: NaN-propagating (`x != x` detects NaN) -/
def npMax? : List R → Option R
  | [] => none
  | x :: xs => some (xs.foldl (fun m y => if (m == m) = false then m else if (y == y) = false then y
                                          else if m < y then y else m) x)

/-- `numpy.add.reduce` along an axis: sequential, starting from the first element (`0.0` when empty) -/
def addReduce : List R → R
  | [] => 0
  | x :: xs => xs.foldl (· + ·) x

/-- the solver attributes a condition reads -/
structure View (R : Type) where
  /-- `inst.energy_history`, oldest first -/
  hist : List R
  /-- `inst.population` (rows) -/
  pop : List (List R)
  /-- `inst.popEnergy` -/
  popE : List R
  /-- `inst.bestSolution` -/
  best : List R
  /-- `inst.trialSolution`: one row (1-D) or a trial population (`trial2d = true`) -/
  trial : List (List R)
  trial2d : Bool
  /-- `inst.gradient[-1]` -/
  grad : List R
  /-- `inst.generations`, `inst._fcalls[0]` -/
  gens : Int
  fcalls : Int
  /-- `inst._EARLYEXIT` -/
  earlyExit : Bool
  /-- readings of `time.time`, `time.perf_counter`, `time.process_time` at the call -/
  tTime : R
  tPerf : R
  tProc : R
  /-- `getattr(inst, 'gradient', [None])[-1] is None`: the solver supplies no gradient (no mystic solver does) -/
  gradNone : Bool := false
  /-- `inst._cost[1]`: the RAW cost function (`none`: the solver has no `_cost`, AttributeError) -/
  cost : Option (List R → R) := none
  /-- `inst._stepmon`'s parameter history (what the collapse detectors read), oldest first -/
  steps : List (List R) := []

/-- `norm` of `GradientNormTolerance` = `p` of `Lnorm` (math/distance.py l.13-37).  The power and the root of a
finite `p` are carried as operations (`powp x = x**p`, `root s = s**(1./p)`), `raises w` says whether evaluating
`sum(abs(w**p))**(1./p)` under `seterr(over='raise', invalid='raise')` raises FloatingPointError (never, in exact
arithmetic); the count of `p = 0` is cast by `cast`. -/
inductive Norm (R : Type) where
  | zero (cast : Nat → R)                                   -- l.26-27 `not p`: number of non-zero entries
  | inf                                                     -- l.28-29
  | neginf                                                  -- l.30-31: BUILTIN `min(abs(w), axis=axis)`: TypeError
  | fin (powp root : R → R) (raises : List R → Bool)        -- l.32-38

/-- the primitive conditions with their keyword settings (what the doc string reports) -/
inductive Prim (R : Type) where
  | vtr (tol tgt : R)                                             -- l.181
  | cog (tol : R) (gens : Option Int)                             -- l.198
  | ncog (tol : R) (gens : Option Int) (eta : R)                  -- l.219 (`eta = 1e-20`, l.224)
  | crt (xtol ftol : R)                                           -- l.242
  | solimp (tol : R)                                              -- l.269
  | nct (fval : Option R) (tol : R) (gens : Option Int)           -- l.290
  | vtrcog (ftol gtol : R) (gens : Option Int) (tgt : R)          -- l.320
  | popspread (tol : R)                                           -- l.344
  | gradnorm (tol : R)                                            -- l.363, `norm = inf`, gradient supplied
  | gradnormP (tol : R) (norm : Norm R) (eps : R)                 -- l.363-383, any `norm`; gradient or `approx_fprime`
  /-- l.504-529 `CollapseAt(target, tolerance, generations, mask)`; `tols`: a scalar tolerance is the one-element list -/
  | collapseAt (tgt : Clps.Target R) (tols : List R) (gens : Int) (mask : Clps.SetMask)
  /-- l.531-554 `CollapseAs(offset, tolerance, generations, mask)` -/
  | collapseAs (offset : Bool) (tol : R) (gens : Int) (mask : Clps.SetMask)
  | evallimits (gens evals : Option Int)                          -- l.386
  | timelimits (seconds : R) (system : Option Bool) (s0 s1 s2 : R) -- l.413, `start` for the 3 timers
  | interrupt                                                     -- l.439

inductive POut where
  | unsat | sat | warn
  deriving DecidableEq, Repr

inductive Err where
  | index | value | type | attr
  deriving DecidableEq, Repr

/-- `gens = 0 if generations is None else int(generations)` (l.211) -/
def gensOf (g : Option Int) : Int := g.getD 0

/-- the pair `(hist[-gens], hist[-1])`, once `lg > gens` is known (`none` = `IndexError`, only for `gens < 0`) -/
def window (hist : List R) (gens : Int) : Option (R × R) :=
  match pyGet? hist (-gens), pyGet? hist (-1) with
  | some a, some b => some (a, b)
  | _, _ => none

/-- l.261: `numpy.ravel(abs(sim[1:]-sim[0]))` (row-major) -/
def crtDiffs (pop : List (List R)) : List R :=
  match pop with
  | [] => []
  | x0 :: rest => (rest.map (fun row => List.zipWith (fun a b => absR (a - b)) row x0)).flatten

/-- l.262: `abs(fsim[0]-fsim[1:])` -/
def crtFDiffs (popE : List R) : List R :=
  match popE with
  | [] => []
  | f0 :: rest => rest.map (fun fi => absR (f0 - fi))

/-- l.280-283: per trial row `numpy.add.reduce(abs(best - trial).T)` -/
def solimpSums (best : List R) (trial : List (List R)) : List R :=
  trial.map (fun row => addReduce (List.zipWith (fun b t => absR (b - t)) best row))

/-- l.358: `numpy.all(abs(sim - sim[0]) <= abs(tolerance * sim[0]))` -/
def popspreadAll (tol : R) (pop : List (List R)) : Bool :=
  match pop with
  | [] => true
  | x0 :: _ => pop.all (fun row => (List.zipWith (fun a b => decide (absR (a - b) ≤ absR (tol * b))) row x0).all id)

/-- `numpy.array(rows)` of a ragged list of rows is a ValueError (inhomogeneous shape, numpy >= 1.24) -/
def ragged (rows : List (List R)) : Bool :=
  match rows with
  | [] => false
  | r :: rest => !(rest.all (fun q => q.length == r.length))

/-- `best - trial` broadcasts only equal trailing lengths or a length of 1 (otherwise ValueError) -/
def noBroadcast (best : List R) (trial : List (List R)) : Bool :=
  match trial with
  | [] => false
  | r :: _ => !(best.length == r.length || best.length == 1 || r.length == 1)

/-- `xk + ei` with `ei[k] = epsilon`, `0.0` elsewhere (_scipy060optimize.py l.614-618) -/
def bump (x : List R) (k : Nat) (eps : R) : List R := x.mapIdx (fun j xj => xj + (if j = k then eps else 0))

/-- `approx_fprime(xk, f, epsilon)` (_scipy060optimize.py l.611-619): forward differences -/
def approxFprime (f : List R → R) (x : List R) (eps : R) : List R :=
  (List.range x.length).map (fun k => (f (bump x k eps) - f x) / eps)

/-- the points at which `approx_fprime` evaluates `f`, in order: `f0 = f(xk)` first, then one per coordinate.
`GradientNormTolerance` passes the RAW cost `inst._cost[1]` (l.373): these `len(x)+1` evaluations are not counted
in `_fcalls` and not seen by the evaluation monitor (finding F11). -/
def approxPoints (x : List R) (eps : R) : List (List R) :=
  x :: (List.range x.length).map (fun k => bump x k eps)

/-- l.370-374: the solver's last gradient, else the finite-difference gradient of the raw cost at `bestSolution` -/
def gradOf (v : View R) (eps : R) : Except Err (List R) :=
  if v.gradNone = true then
    match v.cost with
    | none => .error .attr
    | some f => .ok (approxFprime f v.best eps)
  else .ok v.grad

/-- `max(abs(weights), axis=0)` (`none` = zero-size reduction) -/
def lnormInf (w : List R) : Except Err R :=
  match npMax? (w.map absR) with
  | some m => .ok m
  | none => .error .value

/-- `Lnorm(weights, p, axis=0)` on a 1-D array (math/distance.py l.24-38) -/
def lnorm (n : Norm R) (w : List R) : Except Err R :=
  match n with
  | .zero cast => .ok (cast (w.filter (fun x => (x == 0) = false)).length)      -- l.27 `sum(weights != 0.0)`
  | .inf => lnormInf w                                                           -- l.29
  | .neginf => .error .type                                                      -- l.31
  | .fin powp root raises =>
      if raises w = true then lnormInf w                                         -- l.35-36 `except FloatingPointError`
      else .ok (root (addReduce (w.map (fun x => absR (powp x)))))               -- l.34

/-- l.370-380: `gnorm`, or the exception on the way -/
def gnormOf (v : View R) (n : Norm R) (eps : R) : Except Err R :=
  match gradOf v eps with
  | .error e => .error e
  | .ok g => lnorm n g

/-- exceptions of the collapse detectors, as exceptions of the condition -/
def ofClpsErr : Clps.Err → Err
  | .value => .value
  | .type => .type
  | .index => .index

/-- `collapsed`, the detector's result as the condition reports it after `' at '` (l.524-525 / l.549-550): a sorted
list of index tuples (`{0, 2}` is `[[0], [2]]`, `{(0, 1)}` is `[[0, 1]]`); only computed once the history is longer
than `generations` (l.520-521) -/
def collapsedOf (v : View R) : Prim R → Option (Except Err (List (List Nat)))
  | .collapseAt tgt tols g mask =>
      if v.hist.length = 0 then none else if (v.hist.length : Int) ≤ g then none
      else some (match Clps.collapseAt v.steps tgt tols (some g) mask with
        | .ok l => .ok (l.map (fun i => [i]))
        | .error e => .error (ofClpsErr e))
  | .collapseAs off tol g mask =>
      if v.hist.length = 0 then none else if (v.hist.length : Int) ≤ g then none
      else some (match Clps.collapseAs v.steps off tol (some g) mask with
        | .ok l => .ok (l.map (fun p => [p.1, p.2]))
        | .error e => .error (ofClpsErr e))
  | _ => none

/-- the text after `' at '` in the info string of a satisfied Collapse* condition (`[]`: nothing reported) -/
def Prim.payload (v : View R) (p : Prim R) : List (List Nat) :=
  match collapsedOf v p with
  | some (.ok l) => l
  | _ => []

/-- the exception a primitive raises on a malformed view (`none`: it returns) -/
def Prim.err (v : View R) : Prim R → Option Err
  | .cog _ g => if v.hist.length = 0 then none else if (v.hist.length : Int) ≤ gensOf g then none
      else if (window v.hist (gensOf g)).isNone then some .index else none
  | .ncog _ g _ => if v.hist.length = 0 then none else if (v.hist.length : Int) ≤ gensOf g then none
      else if (window v.hist (gensOf g)).isNone then some .index else none
  | .nct fval _ g => if v.hist.length = 0 then none
      else if gensOf g ≠ 0 ∧ fval.isNone then
        (if (v.hist.length : Int) > gensOf g ∧ (window v.hist (gensOf g)).isNone then some .index else none)
      else none
  | .vtrcog _ _ g _ => if v.hist.length = 0 then none
      else if (v.hist.length : Int) > gensOf g ∧ (window v.hist (gensOf g)).isNone then some .index else none
  | .crt _ _ => if ragged v.pop = true then some .value    -- l.250 `numpy.array(inst.population)`
      else if v.popE.length < 2 then none
      else if v.pop.length = 0 then some .index            -- `sim[0]`
      else if (crtDiffs v.pop).length = 0 then some .value -- `max([])`
      else none
  | .popspread _ => if ragged v.pop = true then some .value                             -- l.353
      else if v.pop.length = 0 then some .index else none                               -- `sim[0]`
  | .solimp _ => if v.trial2d = true ∧ ragged v.trial = true then some .value           -- l.279
      else if noBroadcast v.best v.trial = true then some .value else none              -- l.280
  | .gradnorm _ => if v.grad.length = 0 then some .value else none                      -- `numpy.max([])`
  | .gradnormP _ n eps => match gnormOf v n eps with
      | .error e => some e
      | .ok _ => none
  | .collapseAt tgt tols g mask => match collapsedOf v (.collapseAt tgt tols g mask) with
      | some (.error e) => some e
      | _ => none
  | .collapseAs off tol g mask => match collapsedOf v (.collapseAs off tol g mask) with
      | some (.error e) => some e
      | _ => none
  | _ => none

/-- does `a <= b` hold for an optional left side (`none` never arises when `Prim.err = none`) -/
def leOpt (a : Option R) (b : R) : Bool :=
  match a with
  | some x => decide (x ≤ b)
  | none => false

/-- `a <= b` for a left side that may have raised (never evaluated then: `Prim.err`) -/
def leExc (a : Except Err R) (b : R) : Bool :=
  match a with
  | .ok x => decide (x ≤ b)
  | .error _ => false

/-- l.213-214 / l.310-311 / l.337-338: `(hist[-gens]-hist[-1]) <= tol or hist[-gens] == hist[-1]` -/
def changeTest (tol : R) (w : Option (R × R)) : Bool :=
  match w with
  | none => false
  | some ab => decide (ab.1 - ab.2 ≤ tol) || (ab.1 == ab.2)

/-- l.235-237 -/
def nchangeTest (tol eta : R) (w : Option (R × R)) : Bool :=
  match w with
  | none => false
  | some ab => (ab.1 == ab.2) || decide (2 * (ab.1 - ab.2) ≤ tol * (absR ab.1 + absR ab.2) + eta)

/-- `x >= limit` where `limit = inf` stands for `None` (l.397-398, 404) -/
def geLim (x : Int) (lim : Option Int) : Bool :=
  match lim with
  | none => false
  | some m => decide (m ≤ x)

/-- what the primitive returns (`true` = doc, `false` = null), line by line; `crt` with `nPop < 2` apart -/
def Prim.test (v : View R) : Prim R → Bool
  | .vtr tol tgt =>
      match v.hist.getLast? with
      | none => false                                                     -- l.191
      | some last => decide (absR (last - tgt) ≤ tol)                     -- l.192
  | .cog tol g =>
      if v.hist.length = 0 then false                                     -- l.210
      else if (v.hist.length : Int) ≤ gensOf g then false                 -- l.212
      else changeTest tol (window v.hist (gensOf g))                      -- l.213-214
  | .ncog tol g eta =>
      if v.hist.length = 0 then false                                     -- l.232
      else if (v.hist.length : Int) ≤ gensOf g then false                 -- l.234
      else nchangeTest tol eta (window v.hist (gensOf g))                 -- l.235-237
  | .crt xtol ftol =>
      leOpt (pyMax? (crtDiffs v.pop)) xtol                                -- l.261
        && leOpt (pyMax? (crtFDiffs v.popE)) ftol                         -- l.262
  | .solimp tol =>
      if v.trial2d = true then leOpt (pyMax? (solimpSums v.best v.trial)) tol      -- l.282-284
      else match v.trial with
        | [] => false
        | row :: _ => decide (addReduce (List.zipWith (fun b t => absR (b - t)) v.best row) ≤ tol)  -- l.281,284
  | .nct fval tol g =>
      match v.hist.getLast? with
      | none => false                                                     -- l.306
      | some last =>
        match fval with
        | none =>
          if gensOf g ≠ 0 then                                            -- l.308
            (if gensOf g < (v.hist.length : Int) then changeTest 0 (window v.hist (gensOf g))   -- l.310-312
             else false)                                                  -- l.313
          else true                                                       -- l.314
        | some f => decide (absR (last - f) ≤ absR (tol * f))             -- l.315
  | .vtrcog ftol gtol g tgt =>
      match v.hist.getLast? with
      | none => false                                                     -- l.334
      | some last =>
        (decide (gensOf g < (v.hist.length : Int)) && changeTest gtol (window v.hist (gensOf g)))   -- l.337-338
          || decide (absR (last - tgt) ≤ ftol)                            -- l.339
  | .popspread tol => popspreadAll tol v.pop                              -- l.358
  | .gradnorm tol => leOpt (npMax? (v.grad.map absR)) tol                 -- l.380-381
  | .gradnormP tol n eps => leExc (gnormOf v n eps) tol                   -- l.380-381
  | .collapseAt tgt tols g mask =>                                        -- l.518-527: `if collapsed:`
      !(Prim.payload v (.collapseAt tgt tols g mask)).isEmpty
  | .collapseAs off tol g mask =>                                         -- l.543-552
      !(Prim.payload v (.collapseAs off tol g mask)).isEmpty
  | .evallimits gens evals => geLim v.fcalls evals || geLim v.gens gens   -- l.404
  | .timelimits seconds system s0 s1 s2 =>                                -- l.422-433
      match system with
      | none => decide (absR seconds ≤ v.tTime - s0)
      | some true => decide (absR seconds ≤ v.tPerf - s1)
      | some false => decide (absR seconds ≤ v.tProc - s2)
  | .interrupt => v.earlyExit                                             -- l.448

/-- `CandidateRelativeTolerance` with fewer than two candidates returns a warning string (l.252-255) -/
def Prim.warns (v : View R) : Prim R → Bool
  | .crt _ _ => decide (v.popE.length < 2)
  | _ => false

def Prim.out (v : View R) (p : Prim R) : POut :=
  if p.warns v = true then .warn else if p.test v = true then .sat else .unsat

/-- truthiness of what the primitive returns -/
def POut.truthy : POut → Bool
  | .unsat => false
  | _ => true

def Prim.eval (v : View R) (p : Prim R) : Bool := (p.out v).truthy

end Scalar

/-! ### compound conditions -/

inductive Kind where
  | when | and | or
  deriving DecidableEq, Repr

/-- `When` and `And` aggregate with `all` (l.97), `Or` with `any` (l.166) -/
def Kind.isAll : Kind → Bool
  | .or => false
  | _ => true

/-- a condition OBJECT: a primitive closure or a tuple subclass instance with its members -/
inductive Cond (R : Type) where
  | prim (oid did : Nat) (p : Prim R)
  | node (k : Kind) (cs : List (Cond R))

/-- what the user writes: `When(e)`, `And(*es)`, `Or(*es)` -/
inductive Expr (R : Type) where
  | prim (oid did : Nat) (p : Prim R)
  | when (e : Expr R)
  | and (es : List (Expr R))
  | or (es : List (Expr R))

/-- an element of an info string: a primitive's doc or the CandidateRelativeTolerance warning -/
inductive Atom where
  | doc (d : Nat)
  | warn
  deriving DecidableEq, Repr

variable {R : Type}

mutual
/-- equality of dict keys: functions by identity, tuples element-wise WHATEVER their class
(`tuple.__eq__` / `tuple.__hash__` ignore the subclass) -/
def Cond.keyEq : Cond R → Cond R → Bool
  | .prim i _ _, .prim j _ _ => i == j
  | .node _ as, .node _ bs => Cond.keyEqs as bs
  | _, _ => false
def Cond.keyEqs : List (Cond R) → List (Cond R) → Bool
  | [], [] => true
  | a :: as, b :: bs => Cond.keyEq a b && Cond.keyEqs as bs
  | _, _ => false
end

/-- `stop.update({f : value})` (l.96/165) on an insertion-ordered dict: an existing equal key keeps
its place (and its identity, recorded as the member's index) and takes the new value -/
def dictSet {V : Type} (d : List (Cond R × Nat × V)) (k : Cond R) (i : Nat) (x : V) : List (Cond R × Nat × V) :=
  match d with
  | [] => [(k, i, x)]
  | e :: rest => if Cond.keyEq e.1 k = true then (e.1, e.2.1, x) :: rest else e :: dictSet rest k i x

/-- the dict `stop` after the comprehension over the members (member `j` has index `i + j`) -/
def mkDict {V : Type} : List (Cond R) → List V → Nat → List (Cond R × Nat × V) → List (Cond R × Nat × V)
  | c :: cs, x :: xs, i, d => mkDict cs xs (i + 1) (dictSet d c i x)
  | _, _, _, d => d

def dictVals {V : Type} (d : List (Cond R × Nat × V)) : List V := d.map (fun e => e.2.2)

/-- `set(...)` of atoms, canonical: duplicates removed (order is not observable) -/
def dedupAtoms : List Atom → List Atom
  | [] => []
  | a :: l => if a ∈ dedupAtoms l then dedupAtoms l else a :: dedupAtoms l

section Eval
variable [Add R] [Sub R] [Mul R] [Div R] [Neg R] [LT R] [DecidableLT R] [LE R] [DecidableLE R]
  [BEq R] [OfNat R 0] [OfNat R 2]

mutual
/-- `condition(solver)` (info=False), l.95-99 / l.164-168 -/
def Cond.evalB (v : View R) : Cond R → Bool
  | .prim _ _ p => p.eval v
  | .node k cs =>
      let vals := dictVals (mkDict cs (Cond.evalBs v cs) 0 [])
      if k.isAll = true then vals.all id else vals.any id
def Cond.evalBs (v : View R) : List (Cond R) → List Bool
  | [] => []
  | c :: cs => Cond.evalB v c :: Cond.evalBs v cs
end

mutual
/-- `condition(solver, info=True)` as the set of atoms of the returned string (`""` = `[]`), l.103 / l.169-173 -/
def Cond.info (v : View R) : Cond R → List Atom
  | .prim _ d p => match p.out v with | .unsat => [] | .sat => [.doc d] | .warn => [.warn]
  | .node k cs =>
      let vals := dictVals (mkDict cs (Cond.infos v cs) 0 [])
      if k.isAll = true then
        (if vals.all (fun s => !s.isEmpty) = true then dedupAtoms vals.flatten else [])
      else dedupAtoms vals.flatten
def Cond.infos (v : View R) : List (Cond R) → List (List Atom)
  | [] => []
  | c :: cs => Cond.info v c :: Cond.infos v cs
end

/-- keys of `stop` that `condition(solver, 'self')` returns, as member indices, given the truthiness of
what each member returned in mode `'self'` (l.101 / l.169-171) -/
def selfKeys (k : Kind) (d : List (Cond R × Nat × Bool)) : List Nat :=
  if k.isAll = true then (if (dictVals d).all id = true then d.map (fun e => e.2.1) else [])
  else (d.filter (fun e => e.2.2)).map (fun e => e.2.1)

mutual
/-- truthiness of `member(solver, 'self')`: a primitive returns its doc / `""`, a compound a tuple of members -/
def Cond.truthS (v : View R) : Cond R → Bool
  | .prim _ _ p => p.eval v
  | .node k cs => !(selfKeys k (mkDict cs (Cond.truthSs v cs) 0 [])).isEmpty
def Cond.truthSs (v : View R) : List (Cond R) → List Bool
  | [] => []
  | c :: cs => Cond.truthS v c :: Cond.truthSs v cs
end

/-- `condition(solver, 'self')` for a compound: indices (first occurrence) of the returned members -/
def Cond.selfRes (v : View R) : Cond R → List Nat
  | .prim _ _ _ => []
  | .node k cs => selfKeys k (mkDict cs (Cond.truthSs v cs) 0 [])

/-- `condition(solver, 'not')` (l.92-93 / l.161-162): indices of the members `f` with `f not in self(solver,'self')`
(tuple membership uses the same key equality); duplicates removed by `set` are kept as all their indices here -/
def Cond.notRes (v : View R) : Cond R → List Nat
  | .prim _ _ _ => []
  | .node k cs =>
      let keep := (selfKeys k (mkDict cs (Cond.truthSs v cs) 0 [])).filterMap (fun i => cs[i]?)
      (List.range cs.length).filter (fun i =>
        match cs[i]? with
        | some f => !(keep.any (fun g => Cond.keyEq g f))
        | none => false)

mutual
/-- first exception in evaluation order (every member is called, no short circuit) -/
def Cond.firstErr (v : View R) : Cond R → Option Err
  | .prim _ _ p => p.err v
  | .node _ cs => Cond.firstErrs v cs
def Cond.firstErrs (v : View R) : List (Cond R) → Option Err
  | [] => none
  | c :: cs => match Cond.firstErr v c with
    | some e => some e
    | none => Cond.firstErrs v cs
end

end Eval

/-! ### constructors (`__new__`, l.66-81 / l.112-126 / l.136-150) -/

/-- `tuple.__new__(cls, arg)` after the two normalisation lines:
a single argument that is itself a tuple is UNPACKED (its members become the members), a primitive is wrapped -/
def wrapSingle (k : Kind) (a : Cond R) : Cond R :=
  match a with
  | .prim .. => .node k [a]
  | .node _ cs => .node k cs

mutual
def Expr.build : Expr R → Cond R
  | .prim o d p => .prim o d p
  | .when e =>
      -- l.76: `if isinstance(arg, tuple) and len(arg) == 1: arg = arg[0]`; l.80-81
      match Expr.build e with
      | .node _ [x] => wrapSingle .when x
      | a => wrapSingle .when a
  | .and es =>
      -- l.122: `if isinstance(args, tuple) and len(args) == 1: args = args[0]`; l.124-126
      match Expr.builds es with
      | [a] => wrapSingle .and a
      | as => .node .and as
  | .or es =>
      match Expr.builds es with
      | [a] => wrapSingle .or a
      | as => .node .or as
def Expr.builds : List (Expr R) → List (Cond R)
  | [] => []
  | e :: es => Expr.build e :: Expr.builds es
end

section Den
variable [Add R] [Sub R] [Mul R] [Div R] [Neg R] [LT R] [DecidableLT R] [LE R] [DecidableLE R]
  [BEq R] [OfNat R 0] [OfNat R 2]

mutual
/-- what the property says an expression means -/
def Expr.den (v : View R) : Expr R → Bool
  | .prim _ _ p => p.eval v
  | .when e => Expr.den v e
  | .and es => Expr.denAll v es
  | .or es => Expr.denAny v es
def Expr.denAll (v : View R) : List (Expr R) → Bool
  | [] => true
  | e :: es => Expr.den v e && Expr.denAll v es
def Expr.denAny (v : View R) : List (Expr R) → Bool
  | [] => false
  | e :: es => Expr.den v e || Expr.denAny v es
end

mutual
/-- the same for condition objects (tuple level) -/
def Cond.den (v : View R) : Cond R → Bool
  | .prim _ _ p => p.eval v
  | .node k cs => if k.isAll = true then Cond.denAll v cs else Cond.denAny v cs
def Cond.denAll (v : View R) : List (Cond R) → Bool
  | [] => true
  | c :: cs => Cond.den v c && Cond.denAll v cs
def Cond.denAny (v : View R) : List (Cond R) → Bool
  | [] => false
  | c :: cs => Cond.den v c || Cond.denAny v cs
end

end Den

/-! ### introspection (`state`, `type`, l.30-58) and rebuilding -/

/-- insertion into the dict `_state` keyed by DOC STRING (l.45 `_state[termdoc] = eval(kwds)`; `update` l.41): a doc
already present keeps its place -/
def docInsert (ks : List Nat) (d : Nat) : List Nat := if ks.contains d then ks else ks ++ [d]

mutual
/-- keys of `state(condition)` in insertion order, as doc ids: the walk over the tree (l.34-45) -/
def Cond.stateKeysAux : Cond R → List Nat → List Nat
  | .prim _ d _, ks => docInsert ks d
  | .node _ cs, ks => Cond.stateKeysL cs ks
def Cond.stateKeysL : List (Cond R) → List Nat → List Nat
  | [], ks => ks
  | c :: cs, ks => Cond.stateKeysL cs (Cond.stateKeysAux c ks)
end

/-- NOTE the recursion `_state.update(state(term))` (l.41) builds the sub-dict first and then merges it: the order of
first occurrences is the same as threading one dict through the walk -/
def Cond.stateKeys (c : Cond R) : List Nat := Cond.stateKeysAux c []

inductive PKind where
  | vtr | cog | ncog | crt | solimp | nct | vtrcog | popspread | gradnorm | evallimits | timelimits | interrupt
  | gradnormP | collapseAt | collapseAs
  deriving DecidableEq, Repr

/-- a keyword value as it appears in the doc dict -/
inductive SVal (R : Type) where
  | num (r : R)
  | int (i : Option Int)      -- `generations` / limits (`None` allowed)
  | oflt (r : Option R)       -- `fval`
  | obool (b : Option Bool)   -- `system`
  | norm (n : Norm R)         -- `norm`
  | tols (l : List R)         -- `tolerance` of CollapseAt (scalar or list)
  | target (t : Clps.Target R)
  | smask (m : Clps.SetMask)  -- `mask`
  | bool (b : Bool)           -- `offset`
  | gint (i : Int)            -- `generations` of a Collapse* condition (must be an int: `lg <= generations`)

/-- `termination.type(c)`: the factory, found by name -/
def Prim.kind : Prim R → PKind
  | .vtr .. => .vtr | .cog .. => .cog | .ncog .. => .ncog | .crt .. => .crt | .solimp .. => .solimp
  | .nct .. => .nct | .vtrcog .. => .vtrcog | .popspread .. => .popspread | .gradnorm .. => .gradnorm
  | .gradnormP .. => .gradnormP | .collapseAt .. => .collapseAt | .collapseAs .. => .collapseAs
  | .evallimits .. => .evallimits | .timelimits .. => .timelimits | .interrupt => .interrupt

/-- `termination.state(c)[doc]`: the keyword dict in the doc string, in the order the code writes it -/
def Prim.state : Prim R → List (String × SVal R)
  | .vtr tol tgt => [("tolerance", .num tol), ("target", .num tgt)]
  | .cog tol g => [("tolerance", .num tol), ("generations", .int g)]
  | .ncog tol g _ => [("tolerance", .num tol), ("generations", .int g)]
  | .crt xtol ftol => [("xtol", .num xtol), ("ftol", .num ftol)]
  | .solimp tol => [("tolerance", .num tol)]
  | .nct fval tol g => [("fval", .oflt fval), ("tolerance", .num tol), ("generations", .int g)]
  | .vtrcog ftol gtol g tgt => [("ftol", .num ftol), ("gtol", .num gtol), ("generations", .int g), ("target", .num tgt)]
  | .popspread tol => [("tolerance", .num tol)]
  | .gradnorm tol => [("tolerance", .num tol)]
  | .gradnormP tol n _ => [("tolerance", .num tol), ("norm", .norm n)]
  | .collapseAt tgt tols g mask =>                                        -- l.512-513
      [("tolerance", .tols tols), ("generations", .gint g), ("target", .target tgt), ("mask", .smask mask)]
  | .collapseAs off tol g mask =>                                         -- l.537-538
      [("tolerance", .num tol), ("generations", .gint g), ("offset", .bool off), ("mask", .smask mask)]
  | .evallimits g e => [("generations", .int g), ("evaluations", .int e)]
  | .timelimits s sys _ _ _ => [("seconds", .num s), ("system", .obool sys)]
  | .interrupt => []

def kwNum (kw : List (String × SVal R)) (k : String) : Option R :=
  match kw.lookup k with | some (.num r) => some r | _ => none
def kwInt (kw : List (String × SVal R)) (k : String) : Option (Option Int) :=
  match kw.lookup k with | some (.int i) => some i | _ => none
def kwOFlt (kw : List (String × SVal R)) (k : String) : Option (Option R) :=
  match kw.lookup k with | some (.oflt r) => some r | _ => none
def kwOBool (kw : List (String × SVal R)) (k : String) : Option (Option Bool) :=
  match kw.lookup k with | some (.obool b) => some b | _ => none
def kwNorm (kw : List (String × SVal R)) (k : String) : Option (Norm R) :=
  match kw.lookup k with | some (.norm n) => some n | _ => none
def kwTols (kw : List (String × SVal R)) (k : String) : Option (List R) :=
  match kw.lookup k with | some (.tols l) => some l | _ => none
def kwTarget (kw : List (String × SVal R)) (k : String) : Option (Clps.Target R) :=
  match kw.lookup k with | some (.target t) => some t | _ => none
def kwSMask (kw : List (String × SVal R)) (k : String) : Option Clps.SetMask :=
  match kw.lookup k with | some (.smask m) => some m | _ => none
def kwBool (kw : List (String × SVal R)) (k : String) : Option Bool :=
  match kw.lookup k with | some (.bool b) => some b | _ => none
def kwGInt (kw : List (String × SVal R)) (k : String) : Option Int :=
  match kw.lookup k with | some (.gint i) => some i | _ => none

/-- `factory(**kwds)`: keyword call of the factory named by `kind` (all keywords supplied, as `state` reports
them); `eta` is the factory's own constant, `(s0,s1,s2)` the timer readings at construction -/
def Prim.make (k : PKind) (kw : List (String × SVal R)) (eta s0 s1 s2 : R) : Option (Prim R) :=
  match k with
  | .vtr => do pure (.vtr (← kwNum kw "tolerance") (← kwNum kw "target"))
  | .cog => do pure (.cog (← kwNum kw "tolerance") (← kwInt kw "generations"))
  | .ncog => do pure (.ncog (← kwNum kw "tolerance") (← kwInt kw "generations") eta)
  | .crt => do pure (.crt (← kwNum kw "xtol") (← kwNum kw "ftol"))
  | .solimp => do pure (.solimp (← kwNum kw "tolerance"))
  | .nct => do pure (.nct (← kwOFlt kw "fval") (← kwNum kw "tolerance") (← kwInt kw "generations"))
  | .vtrcog => do pure (.vtrcog (← kwNum kw "ftol") (← kwNum kw "gtol") (← kwInt kw "generations") (← kwNum kw "target"))
  | .popspread => do pure (.popspread (← kwNum kw "tolerance"))
  | .gradnorm => do pure (.gradnorm (← kwNum kw "tolerance"))
  | .gradnormP => do pure (.gradnormP (← kwNum kw "tolerance") (← kwNorm kw "norm") eta)
  | .collapseAt => do pure (.collapseAt (← kwTarget kw "target") (← kwTols kw "tolerance") (← kwGInt kw "generations")
      (← kwSMask kw "mask"))
  | .collapseAs => do pure (.collapseAs (← kwBool kw "offset") (← kwNum kw "tolerance") (← kwGInt kw "generations")
      (← kwSMask kw "mask"))
  | .evallimits => do pure (.evallimits (← kwInt kw "generations") (← kwInt kw "evaluations"))
  | .timelimits => do pure (.timelimits (← kwNum kw "seconds") (← kwOBool kw "system") s0 s1 s2)
  | .interrupt => some .interrupt

end MysticVerif.Term
