/-
Model of the constraint transforms / input-rewriting decorators of
`mystic/constraints.py`, `mystic/tools.py` and the statistics helpers of
`mystic/math/measures.py` they call (property C16).

Every function is the code applied to `decorator(...)(identity)`, on `List R`.
`R` only carries operations (the driver runs it at `Float`, the theorems at a linearly
ordered field).  Python exceptions are the explicit `Except Err`.
No Mathlib imports: this file is linked into `mvdrv`.
-/

namespace MysticVerif.Trans

inductive Err where
  | index | value | type | zerodiv | key | hang
  deriving Repr, DecidableEq

def Err.str : Err → String
  | .index => "index" | .value => "value" | .type => "type"
  | .zerodiv => "zerodiv" | .key => "key" | .hang => "hang"

variable {R : Type}

/-! ## index selection -/

/-- Python / numpy index normalisation on a sequence of length `n`; `none` = `IndexError` -/
def wrapIdx (n : Nat) (i : Int) : Option Nat :=
  if 0 ≤ i then (if i.toNat < n then some i.toNat else none)
  else (if (-i).toNat ≤ n then some (n - (-i).toNat) else none)

def wrapAll (n : Nat) : List Int → Option (List Nat)
  | [] => some []
  | i :: is =>
    match wrapIdx n i, wrapAll n is with
    | some k, some ks => some (k :: ks)
    | _, _ => none

/-- constraints.py l.810-815 (discrete), 869-874 (integers), 929-934 (rounded), 989-994 (precision):
`mask = ones(n)` for `index=None`, else `mask = zeros(n); try: mask[sorted(index,key=abs)] = True;
except IndexError: pass` - the fancy assignment is all-or-nothing, so ONE out-of-range index
leaves the whole mask False. -/
def selMask (n : Nat) (idx : Option (List Int)) (k : Nat) : Bool :=
  match idx with
  | none => true
  | some is =>
    match wrapAll n is with
    | none => false
    | some ks => ks.contains k

/-- constraints.py l.1226 (bounded): `at if index is None else intersect1d(at, index)`:
positions are matched as numbers, so a negative or too large index selects nothing. -/
def selPos (idx : Option (List Int)) (k : Nat) : Bool :=
  match idx with
  | none => true
  | some is => is.contains (Int.ofNat k)

/-- `choose(mask, (x, xp))` with `xp = map g x` -/
def maskMap (g : R → R) (sel : Nat → Bool) (x : List R) : List R :=
  x.mapIdx (fun k a => if sel k = true then g a else a)

/-! ## element maps -/

/-- numpy `clip` ufunc `min(max(a, lo), hi)` (NaN in `a` propagates; ties return the bound) -/
def clipAt [LE R] [DecidableLE R] (lo hi : R) (a : R) : R :=
  let t := if a ≤ lo then lo else a
  if hi ≤ t then hi else t

/-- `numpy.clip(x, min, max)` with scalar bounds, either possibly `None` (tools.py l.721-735).
Both given: `t = lo if x < lo else x; hi if t > hi else t` (ties keep `x`).  One `None`: numpy dispatches to
`maximum(x, lo)` / `minimum(x, hi)` (ties return the bound).  NaN in `x` propagates in every case. -/
def clipOpt [LT R] [DecidableLT R] [LE R] [DecidableLE R] (lo hi : Option R) (a : R) : R :=
  match lo, hi with
  | some l, some h =>
    let t := if a < l then l else a
    if h < t then h else t
  | some l, none => if a ≤ l then l else a
  | none, some h => if h ≤ a then h else a
  | none, none => a

/-- Python `a == b` on numbers, from `≤` only (false on NaN, true on `0.0 == -0.0`) -/
def eqR [LE R] [DecidableLE R] (a b : R) : Bool := decide (a ≤ b) && decide (b ≤ a)

def absR [LT R] [DecidableLT R] [Neg R] [OfNat R 0] (a : R) : R := if a < 0 then -a else a

/-- round-half-even from a `floor` (numpy `rint`), up to the sign of a zero result -/
def rintHE [LT R] [DecidableLT R] [LE R] [DecidableLE R] [Add R] [Sub R] [Mul R] [Div R] [OfNat R 1] [OfNat R 2]
    (floor : R → R) (a : R) : R :=
  let f := floor a
  let d := a - f
  let half : R := 1 / 2
  if d < half then f
  else if half < d then f + 1
  else if eqR (floor (f / 2) * 2) f = true then f else f + 1

/-- `numpy.round(a, digits)` (multiarray `PyArray_Round`): `p = 10**|digits|` -/
def roundDigits [Mul R] [Div R] (rint : R → R) (digits : Int) (p : R) (a : R) : R :=
  if digits = 0 then rint a
  else if 0 < digits then rint (a * p) / p
  else rint (a / p) * p

/-! ## discrete (constraints.py l.727-821) -/

/-- stable insertion (`asc`: before the first strictly larger element) -/
def ins [LT R] [DecidableLT R] (asc : Bool) (a : R) : List R → List R
  | [] => [a]
  | b :: t =>
    if (if asc = true then a < b else b < a) then a :: b :: t else b :: ins asc a t

/-- `sorted(l, reverse = not asc)` (stable) / `ndarray.sort()` -/
def sortBy [LT R] [DecidableLT R] (asc : Bool) (l : List R) : List R :=
  l.foldl (fun acc a => ins asc a acc) []

/-- `_argnear` l.763-768: `arghi = sum(xi > samples)` -/
def countLt [LT R] [DecidableLT R] (s : List R) (xi : R) : Nat := (s.filter (fun v => v < xi)).length

/-- `_near` l.770-773 -/
def near [LT R] [DecidableLT R] [Sub R] (xi lo hi : R) : R := if hi - xi < xi - lo then hi else lo

/-- one entry of `near(x, samples[arglo], samples[arghi])`; `s` is the SORTED sample array -/
def nearS [LT R] [DecidableLT R] [Sub R] (s : List R) (xi : R) : R :=
  let hi0 := countLt s xi
  let lo := hi0 - 1                       -- `max(0, arghi - 1)`
  let hi := if hi0 = s.length then lo else hi0
  near xi (s[lo]?.getD xi) (s[hi]?.getD xi)

def discrete [LT R] [DecidableLT R] [Sub R] (samples : List R) (idx : Option (List Int)) (x : List R) :
    Except Err (List R) :=
  if x.isEmpty then .error .value         -- `arglo, arghi = argnear([])` cannot unpack
  else if samples.isEmpty then .error .index
  else .ok (maskMap (nearS (sortBy true samples)) (selMask x.length idx) x)

/-! ## integers / rounded / precision (l.825-1000) -/

/-- `choose(mask, (x, round(x))).astype(_ints)`: the cast hits EVERY entry (F14) -/
def integers (rint cast : R → R) (idx : Option (List Int)) (x : List R) : List R :=
  (maskMap rint (selMask x.length idx) x).map cast

def rounded [Mul R] [Div R] (rint : R → R) (digits : Int) (p : R) (idx : Option (List Int)) (x : List R) :
    List R :=
  maskMap (roundDigits rint digits p) (selMask x.length idx) x

/-! ## unique (l.1052-1154): duplicates replaced by popping from the shuffled list `new` -/

def uniqueGo [BEq R] : List R → List R → List R → Except Err (List R)
  | [], _, _ => .ok []
  | a :: t, seen, new =>
    if seen.contains a then
      match new.reverse with                 -- `new.pop()`
      | [] => .error .index
      | v :: rest => (uniqueGo t seen rest.reverse).map (v :: ·)
    else (uniqueGo t (a :: seen) new).map (a :: ·)

/-- `unique(x, full)` for `full` a list of values, given the list `new` after `shuffle`
(l.1125-1131: every value must be in `full`; l.1147: `len(x) <= len(full)`) -/
def unique [BEq R] (full : List R) (x : List R) (new : List R) : Except Err (List R) :=
  if (x.all (fun a => full.contains a)) = false then .error .value
  else if full.length < x.length then .error .value
  else uniqueGo x [] new

/-- no repeated entry (Bool, by `==`) -/
def nodupB [BEq R] : List R → Bool
  | [] => true
  | a :: t => !t.contains a && nodupB t

/-- the contract of the list handed to `shuffle` (constraints.py l.1150 `new = list(set(full) - unique)`, `full` ANY
sequence of allowed values - repeated members and any listing order included), evaluated on the list the real run hands
over: no repeats, every entry an allowed value that does not occur in `x`, every allowed value that does not occur in
`x` is listed.  The driver reports it beside the result, so the pool construction is inside the correspondence. -/
def uniquePoolOk [BEq R] (full x new : List R) : Bool :=
  nodupB new && new.all (fun v => full.contains v && !x.contains v) &&
    full.all (fun v => x.contains v || new.contains v)

/-! ## bounded / impose_bounds (l.1186-1355) -/

def inAny [LE R] [DecidableLE R] (ivs : List (R × R)) (a : R) : Bool :=
  ivs.any (fun iv => decide (iv.1 ≤ a) && decide (a ≤ iv.2))

/-- index of the first minimum (`argmin`); 0 for `[]` -/
def argminGo [LT R] [DecidableLT R] : List R → Nat → R → Nat → Nat
  | [], _, _, bi => bi
  | d :: t, i, best, bi => if d < best then argminGo t (i + 1) d i else argminGo t (i + 1) best bi

def argminFirst [LT R] [DecidableLT R] : List R → Nat
  | [] => 0
  | d :: t => argminGo t 1 d 0

/-- l.1231: `_clip(x, lows[argmin |x-lows|], highs[argmin |x-highs|])` -/
def clipNear [LT R] [DecidableLT R] [LE R] [DecidableLE R] [Neg R] [Sub R] [OfNat R 0]
    (ivs : List (R × R)) (a : R) : R :=
  let lows := ivs.map (·.1)
  let highs := ivs.map (·.2)
  let lo := lows[argminFirst (lows.map (fun b => absR (a - b)))]?.getD a
  let hi := highs[argminFirst (highs.map (fun b => absR (a - b)))]?.getD a
  clipAt lo hi a

def boundedAt [LT R] [DecidableLT R] [LE R] [DecidableLE R] [Neg R] [Sub R] [OfNat R 0]
    (ivs : List (R × R)) (a : R) : R :=
  if inAny ivs a = true then a else clipNear ivs a

/-- `bounded(seq, bounds, index, clip=True, nearest=True)`; `ivs = []` is `not bounds` -/
def bounded [LT R] [DecidableLT R] [LE R] [DecidableLE R] [Neg R] [Sub R] [OfNat R 0]
    (ivs : List (R × R)) (idx : Option (List Int)) (x : List R) : List R :=
  if ivs.isEmpty then x else maskMap (boundedAt ivs) (selPos idx) x

/-- l.1232-1234: `clip=True, nearest=False` : interval `picks[r]` for the r-th out-of-bounds entry -/
def boundedPickGo [LE R] [DecidableLE R] (ivs : List (R × R)) (idx : Option (List Int)) :
    List R → Nat → List Nat → List R
  | [], _, _ => []
  | a :: t, k, picks =>
    if (!inAny ivs a && selPos idx k) = true then
      match picks with
      | [] => a :: boundedPickGo ivs idx t (k + 1) []
      | p :: ps =>
        (match ivs[p]? with
          | some iv => clipAt iv.1 iv.2 a
          | none => a) :: boundedPickGo ivs idx t (k + 1) ps
    else a :: boundedPickGo ivs idx t (k + 1) picks

/-- l.1236-1243 `clip=False`: the r-th out-of-bounds entry becomes `u*(hi-lo)+lo` of the chosen interval;
`draws[j][r]` is the r-th uniform drawn for interval `j`; `nearest` picks the interval with the closest end,
else `picks[r]` -/
def boundedRandGo [LT R] [DecidableLT R] [LE R] [DecidableLE R] [Neg R] [Sub R] [Add R] [Mul R] [OfNat R 0]
    (ivs : List (R × R)) (idx : Option (List Int)) (nearest : Bool) (draws : List (List R)) :
    List R → Nat → Nat → List Nat → List R
  | [], _, _, _ => []
  | a :: t, k, r, picks =>
    if (!inAny ivs a && selPos idx k) = true then
      let j := if nearest = true then
          argminFirst (ivs.map (fun iv =>
            let d1 := absR (a - iv.1); let d2 := absR (a - iv.2); if d2 < d1 then d2 else d1))
        else picks.head?.getD 0
      let v := match ivs[j]?, (draws[j]?.bind (·[r]?)) with
        | some iv, some u => u * (iv.2 - iv.1) + iv.1
        | _, _ => a
      v :: boundedRandGo ivs idx nearest draws t (k + 1) (r + 1) picks.tail
    else a :: boundedRandGo ivs idx nearest draws t (k + 1) r picks

/-- `impose_bounds`: `for i in bounds: xp = bounded(xp, bounds[i], i, ...)` over the normalised dict -/
def imposeBounds [LT R] [DecidableLT R] [LE R] [DecidableLE R] [Neg R] [Sub R] [OfNat R 0]
    (spec : List (Option Int × List (R × R))) (x : List R) : List R :=
  spec.foldl (fun xp e => bounded e.2 (e.1.map ([·])) xp) x

/-! ## sorting / monotonic (l.1360-1514) -/

/-- `maximum.accumulate` / `minimum.accumulate` (ties take the newer entry) -/
def accumGo [LT R] [DecidableLT R] (asc : Bool) : R → List R → List R
  | _, [] => []
  | m, b :: t =>
    let m' := if (if asc = true then b < m else m < b) then m else b
    m' :: accumGo asc m' t

def accum [LT R] [DecidableLT R] (asc : Bool) : List R → List R
  | [] => []
  | a :: t => a :: accumGo asc a t

def gather (ks : List Nat) (x : List R) : List R := ks.filterMap (fun k => x[k]?)

/-- `for i,j in zip(idx, vals): x[i] = j` -/
def scatter : List Nat → List R → List R → List R
  | k :: ks, v :: vs, x => scatter ks vs (x.set k v)
  | _, _, x => x

/-- `_isort` / `_imono` (l.1416-1424, 1488-1496) with `f` = `_sort` / `_mono` -/
def indexed (f : List R → List R) (idx : Option (List Int)) (x : List R) : Except Err (List R) :=
  match idx with
  | none => .ok (f x)
  | some is =>
    if is.length = 1 then .ok x
    else if x.length = 1 then .ok x
    else if is.isEmpty then .error .type             -- `itemgetter()` needs an argument
    else
      match wrapAll x.length is with
      | none => .error .index                         -- `itemgetter(*idx)(range(len(x)))`
      | some ks =>
        let ks' := sortBy true ks
        .ok (scatter ks' (f (gather ks' x)) x)

def sorting [LT R] [DecidableLT R] (asc : Bool) (idx : Option (List Int)) (x : List R) :=
  indexed (sortBy asc) idx x

def monotonic [LT R] [DecidableLT R] (asc : Bool) (idx : Option (List Int)) (x : List R) :=
  indexed (accum asc) idx x

/-! ## impose_at (l.1684-1724) -/

def imposeAt (index : List Int) (target : R ⊕ List R) (x : List R) : Except Err (List R) :=
  let kept := index.filter (fun i => i < Int.ofNat x.length)     -- `[i for i in index if i < len(x)]`
  -- numpy broadcasts the value against the index array BEFORE it checks the index bounds
  let vals : Option (List R) := match target with
    | .inl t => some (List.replicate kept.length t)
    | .inr ts =>
      if ts.length = kept.length then some ts
      else match ts with
        | [t] => some (List.replicate kept.length t)             -- a length-1 value broadcasts
        | _ => none
  match vals with
  | none => .error .value                                        -- shape mismatch
  | some vs =>
    match wrapAll x.length kept with
    | none => .error .index                                      -- an index below `-len(x)`
    | some ks => .ok (scatter ks vs x)

/-! ## Python item access with negative indices -/

def getPy (x : List R) (i : Int) : Option R := (wrapIdx x.length i).bind (fun k => x[k]?)

/-- `try: x[i] = v  except IndexError: pass` -/
def setPy (x : List R) (i : Int) (v : R) : List R :=
  match wrapIdx x.length i with
  | some k => x.set k v
  | none => x

/-! ## partial / synchronized (tools.py l.581-672) -/

def partialMask (mask : List (Int × R)) (x : List R) : List R :=
  mask.foldl (fun xp e => setPy xp e.1 e.2) x

/-- a mask value: plain tracked index `j`, or `(j0, c)` = `c * x[j0]` -/
inductive Track (R : Type) where
  | idx (j : Int)
  | scaled (j0 : Int) (c : R)

/-- l.660-666.  On an ndarray the tuple form raises `IndexError` (not `TypeError`) at `x[j]`, which the
outer handler swallows: the entry is skipped (`isArray`). -/
def synchronized [Mul R] (isArray : Bool) (mask : List (Int × Track R)) (x : List R) : List R :=
  mask.foldl (fun xp e =>
    match e.2 with
    | .idx j => match getPy xp j with
      | some v => setPy xp e.1 v
      | none => xp
    | .scaled j0 c =>
      if isArray = true then xp else
      match getPy xp j0 with
      | some v => setPy xp e.1 (c * v)
      | none => xp) x

/-! ## connected / impose_as (tools.py l.770-791, constraints.py l.1622-1681) -/

def connectedStep (coll : List (Int × List Int)) (i j : Int) : List (Int × List Int) × Bool :=
  match coll with
  | [] => ([], false)
  | (k, v) :: rest =>
    if (i == k || v.contains i) = true then ((k, if v.contains j then v else v ++ [j]) :: rest, true)
    else if (j == k || v.contains j) = true then ((k, if v.contains i then v else v ++ [i]) :: rest, true)
    else
      let r := connectedStep rest i j
      ((k, v) :: r.1, r.2)

def connected (pairs : List (Int × Int)) : List (Int × List Int) :=
  pairs.foldl (fun coll p =>
    let r := connectedStep coll p.1 p.2
    if r.2 = true then r.1 else coll ++ [(p.1, [p.2])]) []

/-- `for i,j in pairs: for k in j: try: x[k] = x[i] except IndexError: pass` -/
def tieAll (coll : List (Int × List Int)) (x : List R) : List R :=
  coll.foldl (fun xp e =>
    e.2.foldl (fun xq k => match getPy xq e.1 with
      | some v => setPy xq k v
      | none => xq) xp) x

def dedupInt (l : List Int) : List Int := l.foldl (fun acc a => if acc.contains a then acc else acc ++ [a]) []

/-- one round of the offset loop, l.1671-1673: `for i in trac: try: x[i] += offset except IndexError: pass`
(`trac` is the SET of the tracking indices of the round, l.1670: every index occurs once, however many pairs list it) -/
def offsetRound [Add R] (offset : R) (trac : List Int) (x : List R) : List R :=
  trac.foldl (fun xp i => match getPy xp i with
    | some v => setPy xp i (v + offset)
    | none => xp) x

/-- the `while pairs:` offset loop (l.1667-1675); `fuel` bounds it (a cyclic mask never terminates in the code) -/
def offsetLoop [Add R] (offset : R) : Nat → List (Int × Int) → List R → Except Err (List R)
  | 0, pairs, x => if pairs.isEmpty then .ok x else .error .hang
  | fuel + 1, pairs, x =>
    if pairs.isEmpty then .ok x else
    let trac := dedupInt (pairs.map (·.2))                               -- `trac = set(trac)` l.1670
    let x' := offsetRound offset trac x
    let indx := trac.filter (fun t => (pairs.map (·.1)).contains t)      -- `trac.intersection(indx)` l.1674
    offsetLoop offset fuel (pairs.filter (fun m => indx.contains m.1)) x'

def imposeAs [Add R] (mask : List (Int × Int)) (offset : R) (x : List R) : Except Err (List R) :=
  offsetLoop offset (mask.length + 1) mask (tieAll (connected mask) x)

/-! ## clipped / suppressed / masked (tools.py l.505-735) -/

def clipped [LT R] [DecidableLT R] [LE R] [DecidableLE R] (lo hi : Option R) (x : List R) : List R := x.map (clipOpt lo hi)

/-- `suppress(x, tol, clip=True)`: `x[abs(x) < tol] = 0.0` -/
def suppress [LT R] [DecidableLT R] [Neg R] [OfNat R 0] (tol : R) (x : List R) : List R :=
  x.map (fun a => if absR a < tol then 0 else a)

/-- `suppress(x, tol, clip=False)` l.680-683: the suppressed mass is spread over the other entries -/
def suppressSpread [LT R] [DecidableLT R] [Neg R] [Add R] [Div R] [OfNat R 0] (ofNat : Nat → R) (tol : R)
    (x : List R) : Except Err (List R) :=
  let small := x.filter (fun a => absR a < tol)
  if x.isEmpty then .error .zerodiv                 -- `0/(0-0)` on python ints
  else
    let s := small.foldl (· + ·) 0
    let q := s / ofNat (x.length - small.length)
    .ok (x.map (fun a => if absR a < tol then 0 else a + q))

def insertAt (k : Nat) (v : R) (l : List R) : List R := l.take k ++ v :: l.drop k

/-- `insert_missing(x, mask)` l.505-541 -/
def masked (mask : List (Int × R)) (x : List R) : Except Err (List R) :=
  let keys := mask.map (·.1)
  let first := keys.foldl min 0
  let last := keys.foldl max (-1)
  if first < 0 then .error .key
  else if Int.ofNat (x.length + mask.length) - 1 < last then .error .key
  else
    -- `sorted(_mask.items())` : dict keys are distinct
    let ks := sortBy true keys
    .ok (ks.foldl (fun l k => match mask.find? (fun e => e.1 == k) with
      | some e => insertAt k.toNat e.2 l
      | none => l) x)

/-! ## statistics (constraints.py l.159-313, measures.py) -/

/-- `numpy.allclose(a, b, rtol, atol)` for finite scalars -/
def close [LE R] [DecidableLE R] [LT R] [DecidableLT R] [Neg R] [Sub R] [Add R] [Mul R] [OfNat R 0]
    (atol rtol : R) (a b : R) : Bool :=
  decide (absR (a - b) ≤ atol + rtol * absR b)

def meanL [Div R] (sum : List R → R) (ofNat : Nat → R) (x : List R) : R := sum x / ofNat x.length

/-- `impose_mean(m, x)` measures.py l.414-433 -/
def imposeMean [Add R] [Sub R] [Div R] (sum : List R → R) (ofNat : Nat → R) (m : R) (x : List R) : List R :=
  let shift := m - meanL sum ofNat x
  x.map (· + shift)

def withMean [LE R] [DecidableLE R] [LT R] [DecidableLT R] [Neg R] [Sub R] [Add R] [Mul R] [Div R] [OfNat R 0]
    (sum : List R → R) (ofNat : Nat → R) (atol rtol : R) (target : R) (x : List R) : Except Err (List R) :=
  if x.isEmpty then .error .zerodiv
  else if close atol rtol (meanL sum ofNat x) target = true then .ok x
  else .ok (imposeMean sum ofNat target x)

def maxL [LT R] [DecidableLT R] : List R → Option R
  | [] => none
  | a :: t => some (t.foldl (fun m b => if m < b then b else m) a)

def minL [LT R] [DecidableLT R] : List R → Option R
  | [] => none
  | a :: t => some (t.foldl (fun m b => if b < m then b else m) a)

/-- `with_spread` + `impose_spread` (measures.py l.548-571); `nan` is what the code returns for zero spread -/
def withSpread [LE R] [DecidableLE R] [LT R] [DecidableLT R] [Neg R] [Sub R] [Add R] [Mul R] [Div R] [OfNat R 0]
    (sum : List R → R) (ofNat : Nat → R) (atol rtol : R) (nan : R) (target : R) (x : List R) :
    Except Err (List R) :=
  match maxL x, minL x with
  | some mx, some mn =>
    let sr := mx - mn
    if close atol rtol sr target = true then .ok x
    else if eqR sr 0 = true then .ok (x.map (fun _ => nan))
    else
      let m := meanL sum ofNat x
      let scale := target / sr
      .ok (imposeMean sum ofNat m (x.map (· * scale)))
  | _, _ => .error .value

/-- `normalized(mass)` + `normalize(x, mass)` fixed-mass branch (measures.py l.1329-1379), `zsum=False` -/
def normalized [LE R] [DecidableLE R] [LT R] [DecidableLT R] [Neg R] [Sub R] [Add R] [Mul R] [Div R] [OfNat R 0]
    (sum : List R → R) (atol rtol : R) (mass : R) (x : List R) : List R :=
  if close atol rtol (sum x) mass = true then x
  else
    let w := sum (x.map absR)
    if eqR w 0 = true then x.map (· * 0)
    else
      let ws := x.map (· / w)
      let m := sum ws
      if eqR m 0 = true then x.map (· * 0)
      else ws.map (fun a => mass * a / m)

/-- `with_variance` + `impose_variance` (measures.py l.436-462); `sqrt` is an operation parameter -/
def variance [Sub R] [Mul R] [Div R] (sum : List R → R) (ofNat : Nat → R) (x : List R) : R :=
  let m := meanL sum ofNat x
  meanL sum ofNat (x.map (fun s => (s - m) * (s - m)))

def withVariance [LE R] [DecidableLE R] [LT R] [DecidableLT R] [Neg R] [Sub R] [Add R] [Mul R] [Div R] [OfNat R 0]
    (sum : List R → R) (ofNat : Nat → R) (sqrt : R → R) (atol rtol : R) (nan : R) (target : R) (x : List R) :
    Except Err (List R) :=
  if x.isEmpty then .error .zerodiv
  else
    let sv := variance sum ofNat x
    if close atol rtol sv target = true then .ok x
    else if eqR sv 0 = true then (if eqR target 0 = true then .ok x else .ok (x.map (fun _ => nan)))
    else
      let m := meanL sum ofNat x
      let scale := sqrt (target / sv)
      .ok (imposeMean sum ofNat m (x.map (· * scale)))

/-- `numpy.sum` of a 1-d array of length ≤ 128: pairwise with 8 accumulators (umath `pairwise_sum`) -/
def npSumGo [Add R] : List R → List R → List R
  | r, [] => r
  | r, b => if b.length < 8 then r else npSumGo (List.zipWith (· + ·) r (b.take 8)) (b.drop 8)
termination_by _ b => b.length
decreasing_by simp [List.length_drop]; omega

def npSum [Add R] [OfNat R 0] (a : List R) : R :=
  if a.length < 8 then a.foldl (· + ·) 0
  else
    let r := npSumGo (a.take 8) (a.drop 8)
    let tail := a.drop (a.length - a.length % 8)
    match r with
    | [r0, r1, r2, r3, r4, r5, r6, r7] =>
      tail.foldl (· + ·) (((r0 + r1) + (r2 + r3)) + ((r4 + r5) + (r6 + r7)))
    | _ => a.foldl (· + ·) 0

end MysticVerif.Trans
