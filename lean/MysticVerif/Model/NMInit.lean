/-
The two oracles of Model/RefFmin.lean made concrete, as the two programs compute them (C08):

  * the displaced coordinates of the initial simplex
      reference `_scipy060optimize.fmin` l.192-201:
          nonzdelt = 0.05; zdelt = 0.00025
          if y[k] != 0: y[k] = (1+nonzdelt)*y[k]   else: y[k] = zdelt
      mystic `NelderMeadSimplexSolver._setSimplexWithinRangeBoundary` (scipy_optimize.py l.135-137), no strict ranges:
          val = x0*(1+radius)
          val[val==0] = (radius**2) * 0.1
    The zero test is EXACT equality with zero (`isZero`, at Float `v == 0.0`: both signed zeros and nothing else -
    not 1e-9, not 0.1+0.2-0.3, not a denormal); mystic tests the PRODUCT, the reference the coordinate itself.
  * the convergence test on the sorted simplex
      reference l.215-216 / `CandidateRelativeTolerance` (termination.py l.261-262):
          max(numpy.ravel(abs(sim[1:]-sim[0]))) <= xtol and max(abs(fsim[0]-fsim[1:])) <= ftol
    with python's builtin `max` (keep the first item, replace it when a later one is greater).

Written over abstract scalars (operations only): the driver instantiates `Float`, the theorems a field / linear
order.  No Mathlib imports.
-/
import MysticVerif.Model.RefFmin

namespace MysticVerif.Solver

variable {R E : Type}

/-- reference l.196-201: `(1+nonzdelt)*y[k]` if `y[k] != 0` else `zdelt` -/
def refInitVal [Add R] [Mul R] (isZero : R → Bool) (one nonzdelt zdelt : R) (x0 : Pt R) : Pt R :=
  x0.map fun y => if isZero y = true then zdelt else (one + nonzdelt) * y

/-- mystic l.136-137: `val = x0*(1+radius); val[val==0] = (radius**2) * 0.1` -/
def mysticInitVal [Add R] [Mul R] (isZero : R → Bool) (one radius tenth : R) (x0 : Pt R) : Pt R :=
  x0.map fun x => if isZero (x * (one + radius)) = true then (radius * radius) * tenth else x * (one + radius)

/-- The coefficient selection at the top of `NelderMeadSimplexSolver._Step` (scipy_optimize.py l.255-259):
```
if adaptive:
    dim = float(len(self.population[0]))
    rho = 1; chi = 1+2/dim; psi = 0.75-1/(2*dim); sigma = 1-1/dim
else:
    rho = 1; chi = 2; psi = 0.5; sigma = 0.5
```
`one two half q34` are the literals 1, 2, 0.5, 0.75 at the scalar type and `n` is `float(N)`.  The reference
`_scipy060optimize.fmin` (l.180) has the second line only. -/
def mysticCoef [Add R] [Sub R] [Mul R] [Div R] (one two half q34 : R) (adaptive : Bool) (n : R) : Coef R :=
  if adaptive = true then
    { one := one, rho := one, chi := one + two / n, psi := q34 - one / (two * n), sigma := one - one / n, n := n }
  else
    { one := one, rho := one, chi := two, psi := half, sigma := half, n := n }

/-- the published coefficient sets: the standard one (Nelder & Mead; reference l.180) and the dimension-adaptive one of
Gao & Han (2012), `(rho, chi, psi, sigma) = (1, 1 + 2/n, 3/4 - 1/(2n), 1 - 1/n)`, written over a field as closed fractions -/
def publishedCoef [Add R] [Sub R] [Mul R] [Div R] (one two three four : R) (adaptive : Bool) (n : R) : Coef R :=
  if adaptive = true then
    { one := one, rho := one, chi := (n + two) / n, psi := (three * n - two) / (four * n), sigma := (n - one) / n, n := n }
  else
    { one := one, rho := one, chi := two, psi := one / two, sigma := one / two, n := n }

/-- python's builtin `max(seq)`: `None` stands for the ValueError on an empty sequence -/
def pyMax [LT R] [DecidableLT R] : List R → Option R
  | [] => none
  | a :: as => some (as.foldl (fun m b => if m < b then b else m) a)

/-- `abs(sim[1:]-sim[0])` flattened row by row (`numpy.ravel`) -/
def crtDx [Sub R] (absR : R → R) (x0 : Pt R) (rest : List (Pt R × E)) : List R :=
  rest.flatMap fun p => List.zipWith (fun a b => absR (a - b)) p.1 x0

/-- `abs(fsim[0]-fsim[1:])` -/
def crtDf [Sub E] (absE : E → E) (f0 : E) (rest : List (Pt R × E)) : List E :=
  rest.map fun p => absE (f0 - p.2)

/-- `max(ravel(abs(sim[1:]-sim[0]))) <= xtol and max(abs(fsim[0]-fsim[1:])) <= ftol` -/
def crtConv [Sub R] [LT R] [DecidableLT R] [LE R] [DecidableLE R] [Sub E] [LT E] [DecidableLT E] [LE E] [DecidableLE E]
    (absR : R → R) (absE : E → E) (xtol : R) (ftol : E) (sim : List (Pt R × E)) : Bool :=
  match sim with
  | [] => false
  | (x0, f0) :: rest =>
    match pyMax (crtDx absR x0 rest), pyMax (crtDf absE f0 rest) with
    | some dx, some df => decide (dx ≤ xtol) && decide (df ≤ ftol)
    | _, _ => false

end MysticVerif.Solver
