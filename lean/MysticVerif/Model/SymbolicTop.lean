/-
C12, third layer (no Mathlib; linked into `mvdrv`): the TOP LEVEL of `simplify` (symbolic.py l.795-812), i.e. what
happens around the per-case calls of `_simplify`:

    all  = kwds['all'] if 'all' in kwds else False                                   l.798
    cons = absval(constraints, **kwds)            # a str, or (all=True, > 1 case) a tuple of str      l.799
    simple = _simplify                                                                l.806
    cons = [simple(ci, **kwds) for ci in cons] if type(cons) is tuple else simple(cons, **kwds)        l.807
    eqns = tuple(chain.from_iterable(i if type(i) is tuple else (i,) for i in cons)) if type(cons) is list
           else (cons if type(cons) is tuple else (cons,))                            l.809
    return (eqns if all else eqns[random.randint(0,len(eqns)-1)]) if len(eqns) > 1
           else (eqns[0] if len(eqns) else '')                                        l.810

`simple` is a FUNCTION of the case text (and of the caller's keywords, which are forwarded unchanged): every call
of `simplify` computes every case anew, nothing is carried from one call to the next.  The model is therefore a
pure function of the values returned by `absval` and by `_simplify` for THIS call; the harness records those values
on the real code (wrappers around the module-level names `absval`, `_simplify`, `random.randint`) and compares what
`simplify` returns with `simplifyTop` of them - a call that answers from anything else than its own `_simplify`
results (a remembered result of an earlier call with other keywords) diverges from the model.
-/

namespace MysticVerif.Sym

/-- what `absval` / `_simplify` return: `None`, one text, or a tuple of texts -/
inductive Ret (α : Type) where
  | none
  | one (a : α)
  | many (l : List α)
  deriving Repr, DecidableEq

/-- `i if type(i) is tuple else (i,)` (l.809): the elements a returned value contributes; `None` stays an element -/
def Ret.elems {α : Type} : Ret α → List (Option α)
  | .none => [Option.none]
  | .one a => [some a]
  | .many l => l.map some

/-- the case texts `absval` hands to `simple` (l.807): every member of a tuple, or the one text -/
def Ret.texts {α : Type} : Ret α → List α
  | .none => []
  | .one a => [a]
  | .many l => l

/-- l.807-809, the two branches as written -/
def topEqns {T U : Type} (cons : Ret T) (simple : T → Ret U) : List (Option U) :=
  match cons with
  | .many cs => cs.flatMap fun ci => (simple ci).elems          -- list branch: chain.from_iterable
  | .one c =>
    match simple c with
    | .many l => l.map some                                      -- `cons if type(cons) is tuple`
    | .one a => [some a]                                         -- `(cons,)`
    | .none => [none]                                            -- `(None,)`
  | .none => []                                                  -- (absval never returns None)

/-- what `simplify` returns: a tuple, one element (a text or `None`), or the empty text `''` -/
inductive TopRet (U : Type) where
  | tuple (l : List (Option U))
  | single (a : Option U)
  | empty
  deriving Repr, DecidableEq

/-- l.810; `r` = the value of `random.randint(0, len(eqns)-1)` -/
def selectTop {U : Type} (all : Bool) (r : Nat) (eqns : List (Option U)) : TopRet U :=
  if 1 < eqns.length then
    (if all = true then .tuple eqns else .single (eqns.getD r none))
  else
    match eqns with
    | a :: _ => .single a
    | [] => .empty

/-- `simplify` around `absval` and `_simplify` -/
def simplifyTop {T U : Type} (all : Bool) (r : Nat) (cons : Ret T) (simple : T → Ret U) : TopRet U :=
  selectTop all r (topEqns cons simple)

/-- the cases a returned value consists of -/
def TopRet.cases {U : Type} : TopRet U → List (Option U)
  | .tuple l => l
  | .single a => [a]
  | .empty => []

/-- finite table -> function (driver): the recorded `_simplify` results by case text; a text that was never
handed to `_simplify` has no entry -/
def lookupRet {U : Type} (tbl : List (Nat × Ret U)) (t : Nat) : Option (Ret U) :=
  match tbl with
  | [] => none
  | p :: rest => if p.1 = t then some p.2 else lookupRet rest t

end MysticVerif.Sym
