/-
Model of `NelderMeadSimplexSolver._Step` (scipy_optimize.py l.223-367): the staged step machine
(generation 0: initial evaluation; generation 1: build the simplex; generation >= 2: one Nelder-Mead update)
with the vertex arithmetic written once over an arbitrary scalar type `R` (operations only), so the driver
runs it at `Float` bit-for-bit and the theorems hold for every interpretation of the operations.

The simplex is a list of (vertex, energy) pairs: the code applies ONE permutation (`numpy.argsort(fsim)`,
insertion sort for <= 16 rows, i.e. stable) to both arrays.  No Mathlib imports.
-/
import MysticVerif.Model.Solver

namespace MysticVerif.Solver

variable {R E : Type}

/-! ### vector arithmetic in the order numpy performs it -/

def vadd [Add R] (a b : List R) : List R := List.zipWith (· + ·) a b
def vsub [Sub R] (a b : List R) : List R := List.zipWith (· - ·) a b
def vscale [Mul R] (k : R) (a : List R) : List R := a.map (k * ·)
def vdiv [Div R] (a : List R) (k : R) : List R := a.map (· / k)

/-- `numpy.add.reduce(rows, 0)`: row0 + row1 + ... left to right -/
def vsumRows [Add R] : List (List R) → List R
  | [] => []
  | r :: rs => rs.foldl vadd r

/-- Nelder-Mead coefficients (`rho chi psi sigma`) and `N` as a scalar -/
structure Coef (R : Type) where
  one : R
  rho : R
  chi : R
  psi : R
  sigma : R
  n : R

/-- `(1+rho)*xbar - rho*xw` and friends, exactly as written in the code -/
def reflectPt [Add R] [Sub R] [Mul R] (c : Coef R) (xbar xw : List R) : List R :=
  vsub (vscale (c.one + c.rho) xbar) (vscale c.rho xw)
def expandPt [Add R] [Sub R] [Mul R] (c : Coef R) (xbar xw : List R) : List R :=
  vsub (vscale (c.one + c.rho * c.chi) xbar) (vscale (c.rho * c.chi) xw)
def contractOutPt [Add R] [Sub R] [Mul R] (c : Coef R) (xbar xw : List R) : List R :=
  vsub (vscale (c.one + c.psi * c.rho) xbar) (vscale (c.psi * c.rho) xw)
def contractInPt [Add R] [Sub R] [Mul R] (c : Coef R) (xbar xw : List R) : List R :=
  vadd (vscale (c.one - c.psi) xbar) (vscale c.psi xw)
def shrinkPt [Add R] [Sub R] [Mul R] (c : Coef R) (x0 xj : List R) : List R :=
  vadd x0 (vscale c.sigma (vsub xj x0))

/-! ### the solver state -/

abbrev Pt (R : Type) := List R

structure NM (R E : Type) where
  simplex : List (Pt R × E)        -- (population[i], popEnergy[i])
  log : List (Pt R × E)
  stepLog : List (Pt R × E)
  deriving Inhabited

/-- which branch generation >= 2 took (for the coverage histogram and C08) -/
inductive Branch where
  | init | build | expand | reflect1 | reflect2 | contractOut | contractIn | shrink
  deriving Repr, DecidableEq

/-- stable insertion by energy (`numpy.argsort` on <= 16 entries) -/
def insertByE [LT E] [DecidableLT E] (p : Pt R × E) : List (Pt R × E) → List (Pt R × E)
  | [] => [p]
  | q :: qs => if p.2 < q.2 then p :: q :: qs else q :: insertByE p qs

def sortByE [LT E] [DecidableLT E] (l : List (Pt R × E)) : List (Pt R × E) :=
  l.foldl (fun acc p => insertByE p acc) []

/-- shrink: `for j in 1..N: sim[j] = sim[0] + sigma*(sim[j]-sim[0]); fsim[j] = cost(sim[j])` -/
def shrinkAll [Add R] [Sub R] [Mul R] (o : Obj (Pt R) E) (c : Coef R) (st : Pt R → Pt R) (x0 : Pt R) :
    List (Pt R × E) → List (Pt R × E) → List (Pt R × E) × List (Pt R × E)
  | [], log => ([], log)
  | (xj, _) :: rest, log =>
    let y := shrinkPt c x0 xj
    let r := o.objK y log
    let rr := shrinkAll o c st x0 rest r.2
    ((st y, r.1) :: rr.1, rr.2)

/-- generation 0 (l.275-294): constrain the guess, evaluate it; the other rows are zeros with energy `inf` -/
def NM.gen0 (o : Obj (Pt R) E) (zero : R) (x0 : Pt R) : NM R E :=
  let x := o.K x0
  let r := o.objK x []
  let blank : Pt R × E := (x0.map (fun _ => zero), o.top)
  let sx := (x, r.1) :: x0.map (fun _ => blank)
  { simplex := sx, log := r.2, stepLog := [(x, r.1)] }

/-- sort, log the best vertex in the step monitor -/
def NM.finish [LT E] [DecidableLT E] (s : NM R E) (sx : List (Pt R × E)) (log : List (Pt R × E)) : NM R E :=
  match sortByE sx with
  | [] => s
  | bst :: rest => { simplex := bst :: rest, log := log, stepLog := s.stepLog ++ [bst] }

/-- generation 1 (l.296-310): vertex k+1 is the guess with coordinate k replaced by `val[k]`; then sort -/
def buildRows (o : Obj (Pt R) E) (x0 : Pt R) : List R → Nat → List (Pt R × E) → List (Pt R × E) × List (Pt R × E)
  | [], _, log => ([], log)
  | v :: vs, k, log =>
    let y := x0.set k v
    let r := o.objK y log
    let rr := buildRows o x0 vs (k + 1) r.2
    ((y, r.1) :: rr.1, rr.2)

def NM.gen1 [LT E] [DecidableLT E] (o : Obj (Pt R) E) (clip0 : Pt R → Pt R) (mkVal : Pt R → Pt R) (s : NM R E) : NM R E :=
  match s.simplex with
  | [] => s
  | (x0', f0) :: _ =>
    -- `_setSimplexWithinRangeBoundary`: the guess is clipped into the strict ranges (energy kept), `val` computed
    let x0 := clip0 x0'
    let val := mkVal x0
    let rows := buildRows o x0 val 0 s.log
    NM.finish s ((x0, f0) :: rows.1) rows.2

/-- generation >= 2 (l.312-357), before the sort: the new (unsorted) simplex, the evaluation log, the branch.
`st` is what the array handed to the cost looks like afterwards: the identity for a pure constraints function,
`K` for one that modifies its argument in place (`wrap_nested` passes the numpy view `x[:]`, so an in-place
constraints function rewrites the candidate vertex itself; with strict ranges `and_` copies first). -/
def NM.core [Add R] [Sub R] [Mul R] [Div R] [LT E] [DecidableLT E] [LE E] [DecidableLE E]
    (o : Obj (Pt R) E) (c : Coef R) (st : Pt R → Pt R) (x0 : Pt R) (f0 : E) (tl : List (Pt R × E))
    (xw : Pt R) (fw fsw : E) (log : List (Pt R × E)) : List (Pt R × E) × List (Pt R × E) × Branch :=
  let sx0 := (x0, f0) :: tl
  let xbar := vdiv (vsumRows (sx0.dropLast.map Prod.fst)) c.n
  let xr := reflectPt c xbar xw
  let rr := o.objK xr log
  if rr.1 < f0 then
    let xe := expandPt c xbar xw
    let re := o.objK xe rr.2
    if re.1 < rr.1 then (sx0.dropLast ++ [(st xe, re.1)], re.2, .expand)
    else (sx0.dropLast ++ [(st xr, rr.1)], re.2, .reflect1)
  else if rr.1 < fsw then (sx0.dropLast ++ [(st xr, rr.1)], rr.2, .reflect2)
  else if rr.1 < fw then
    let xc := contractOutPt c xbar xw
    let rc := o.objK xc rr.2
    if rc.1 ≤ rr.1 then (sx0.dropLast ++ [(st xc, rc.1)], rc.2, .contractOut)
    else
      let sh := shrinkAll o c st x0 tl rc.2
      ((x0, f0) :: sh.1, sh.2, .shrink)
  else
    let xcc := contractInPt c xbar xw
    let rc := o.objK xcc rr.2
    if rc.1 < fw then (sx0.dropLast ++ [(st xcc, rc.1)], rc.2, .contractIn)
    else
      let sh := shrinkAll o c st x0 tl rc.2
      ((x0, f0) :: sh.1, sh.2, .shrink)

/-- one `_Step` at generation >= 2: `sim[0] = constraints(sim[0])` (energy kept), update, sort, log -/
def NM.update [Add R] [Sub R] [Mul R] [Div R] [LT E] [DecidableLT E] [LE E] [DecidableLE E]
    (o : Obj (Pt R) E) (c : Coef R) (st : Pt R → Pt R) (s : NM R E) : NM R E × Branch :=
  match s.simplex with
  | [] => (s, .init)
  | (x0', f0) :: tl =>
    let x0 := o.K x0'
    let sx0 := (x0, f0) :: tl
    match sx0.getLast?, sx0.dropLast.getLast? with
    | some (xw, fw), some (_, fsw) =>               -- worst, second worst
      let r := NM.core o c st x0 f0 tl xw fw fsw s.log
      (NM.finish s r.1 r.2.1, r.2.2)
    | _, _ => (s, .init)

end MysticVerif.Solver
