/-
Aliasing model of `mystic.monitors.Monitor`: a monitor OBJECT is four pointers to list cells (`_x`, `_y`, `_id`,
`_info` are Python list objects) plus `k`; the heap holds the cells.  Every operation of Model/Monitor.lean is
re-stated as a heap transformer that says WHICH cells it writes and which it allocates:

* `__call__`, `info`, `extend`, `prepend` write the receiver's cells in place (`list.append / extend / insert`);
* `__add__` = `copy.deepcopy(self)` (four fresh cells) followed by `extend` on the copy (monitors.py l.163-171);
* `__getitem__(slice | list | array | tuple)` = a deep copy whose lists are replaced by new list objects (l.178-200);
* `min()` and `m[i]` only read;
* `SetGenerationMonitor / SetEvaluationMonitor(monitor, new)` (abstract_solver.py l.277-325): the solver's slot
  becomes THE SAME object as `monitor` (pointer copy, aliasing by design) and the previous monitor's records are
  prepended to it (read only) unless `new` or it is the same object.

`Heap.view` reads an object back as a value of the functional model, which ties the two models together.
Cells that become garbage (the lists of the deep copy that `__getitem__` replaces) are not allocated.
A monitor is never extended / prepended with itself (the real code iterates over the list it is growing).
No Mathlib (linked into `mvdrv`).
-/
import MysticVerif.Model.Monitor

namespace MysticVerif.MonHeap
open MysticVerif.Mon

variable {R : Type} {α : Type}

/-- a monitor object: the addresses of its four list cells, and `k` -/
structure Obj (R : Type) where
  cx : Nat
  cy : Nat
  cid : Nat
  cinfo : Nat
  k : Option R := none

/-- the heap: one store per kind of list cell -/
structure Heap (R : Type) where
  xs : List (List (PV R)) := []
  ys : List (List (PV R)) := []
  ids : List (List (Option Int)) := []
  infos : List (List Nat) := []

/-- read a cell (an unallocated address reads as the empty list) -/
def rd (s : List (List α)) (a : Nat) : List α := s.getD a []

/-- overwrite a cell in place -/
def wr (s : List (List α)) (a : Nat) (v : List α) : List (List α) := s.set a v

/-- all four cells are allocated -/
def Obj.Valid (o : Obj R) (h : Heap R) : Prop :=
  o.cx < h.xs.length ∧ o.cy < h.ys.length ∧ o.cid < h.ids.length ∧ o.cinfo < h.infos.length

/-- the two objects share no list cell -/
def Obj.Disj (o p : Obj R) : Prop := o.cx ≠ p.cx ∧ o.cy ≠ p.cy ∧ o.cid ≠ p.cid ∧ o.cinfo ≠ p.cinfo

/-- `a is b` -/
def Obj.same (o p : Obj R) : Bool := o.cx == p.cx && o.cy == p.cy && o.cid == p.cid && o.cinfo == p.cinfo

/-- the object as a value of the functional model -/
def Heap.view (h : Heap R) (o : Obj R) : Mon R :=
  { x := rd h.xs o.cx, y := rd h.ys o.cy, id := rd h.ids o.cid, info := rd h.infos o.cinfo, k := o.k }

/-- allocate a new object with the given contents: four fresh cells -/
def Heap.allocMon (h : Heap R) (m : Mon R) : Heap R × Obj R :=
  ({ xs := h.xs ++ [m.x], ys := h.ys ++ [m.y], ids := h.ids ++ [m.id], infos := h.infos ++ [m.info] },
   { cx := h.xs.length, cy := h.ys.length, cid := h.ids.length, cinfo := h.infos.length, k := m.k })

/-- overwrite the four cells of `o` in place -/
def Heap.store (h : Heap R) (o : Obj R) (m : Mon R) : Heap R :=
  { xs := wr h.xs o.cx m.x, ys := wr h.ys o.cy m.y, ids := wr h.ids o.cid m.id, infos := wr h.infos o.cinfo m.info }

/-- `Monitor(k=k)` -/
def Heap.new (h : Heap R) (k : Option R) : Heap R × Obj R := h.allocMon { k := k }

/-- `o(x, y, id)`: three `append`s on the receiver's own cells -/
def Heap.call [Mul R] (h : Heap R) (o : Obj R) (x y : PV R) (id : Option Int) : Heap R :=
  h.store o ((h.view o).call x y id)

def Heap.calls [Mul R] (h : Heap R) (o : Obj R) : List (PV R × PV R × Option Int) → Heap R
  | [] => h
  | c :: cs => (h.call o c.1 c.2.1 c.2.2).calls o cs

/-- `o.info(msg)` -/
def Heap.info (h : Heap R) (o : Obj R) (msg : Nat) : Heap R := h.store o ((h.view o).addInfo msg)

/-- `copy.deepcopy(o)` -/
def Heap.deepcopy (h : Heap R) (o : Obj R) : Heap R × Obj R := h.allocMon (h.view o)

/-- `o[start:stop:step]` -/
def Heap.slice (h : Heap R) (o : Obj R) (s e : Option Int) (t : Int) : Heap R × Obj R :=
  h.allocMon ((h.view o).slice s e t)

/-- `o[list]` / `o[array]` -/
def Heap.fancy (h : Heap R) (o : Obj R) (sel : Nat → Option (List Nat)) : Except Err (Heap R × Obj R) :=
  match (h.view o).fancy sel with
  | .ok m => .ok (h.allocMon m)
  | .error e => .error e

/-- `a.extend(b)`: `b`'s cells are read, `a`'s are written -/
def Heap.extend [Div R] [OfNat R 1] (h : Heap R) (a b : Obj R) : Heap R := h.store a ((h.view a).extend (h.view b))

/-- `a.prepend(b)` -/
def Heap.prepend [Div R] [OfNat R 1] (h : Heap R) (a b : Obj R) : Heap R := h.store a ((h.view a).prepend (h.view b))

/-- `a + b`: `m = copy.deepcopy(a); m.extend(b); return m` -/
def Heap.add [Div R] [OfNat R 1] (h : Heap R) (a b : Obj R) : Heap R × Obj R :=
  ((h.deepcopy a).1.extend (h.deepcopy a).2 b, (h.deepcopy a).2)

/-- `solver.SetGenerationMonitor(monitor, new)` with `cur = solver._stepmon`; `mon = none` is `None` / `Null`.
Returns the heap and the object the solver's slot points to afterwards. -/
def Heap.handOver [Div R] [OfNat R 1] (h : Heap R) (cur : Obj R) (mon : Option (Obj R)) (new : Bool) : Heap R × Obj R :=
  match mon with
  | none =>
    if new = true then h.new none else ((h.new none).1.prepend (h.new none).2 cur, (h.new none).2)
  | some m =>
    if new = true ∨ cur.same m = true then (h, m) else (h.prepend m cur, m)

end MysticVerif.MonHeap
