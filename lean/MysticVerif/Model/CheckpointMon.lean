/-
C06, aliasing model (Model/Checkpoint.lean, Part B) extended by the evaluation monitor being REPLACED in the middle of
a run: after that the solver's evaluation monitor holds fewer (or more) records than its evaluation counter says, and
the two cells are no longer "the same number seen twice".
-/
import MysticVerif.Model.Checkpoint

namespace MysticVerif.Checkpoint

/-- `SetEvaluationMonitor(monitor, new)` between two Steps (abstract_solver.py l.303-323):
`current = Null() if new else self._evalmon; self._evalmon = monitor; self._evalmon.prepend(current)` - a NEW monitor
cell holding the records of the current one (unless `new`) followed by the records `own` the given monitor already
held (`Monitor.prepend` inserts the old records in front, monitors.py l.260-275) - and then `_update_objective()` =
`Finalize()` (l.883-890): only `_live = False`.  The decorated objective is NOT rebuilt here: its closure keeps the old
monitor (and the counter cell, which stays shared) until the next `_decorate_objective`. -/
def setMonitor (h : Heap) (l : Links) (new : Bool) (own : List Nat) : Heap × Links :=
  ({ h with mon := h.mon ++ [(if new = true then [] else monitor h l) ++ own] },
   { l with solverMon := h.mon.length })

/-- NOT the code of AbstractSolver / DifferentialEvolutionSolver `_decorate_objective` (abstract_solver.py l.908,
differential_evolution.py l.236: `start=self._fcalls[0]`): a re-decoration that restarts the counter from the LENGTH
OF THE EVALUATION MONITOR when it has one (`start = len(evalmon) or self._fcalls[0]`, the idiom of
`DifferentialEvolutionSolver2._Step` l.567-569).  The hypothesis of the witness
`decorate_from_monitor_length_does_not_resume`. -/
def decorateFromMonitor (h : Heap) (l : Links) : Heap × Links :=
  ({ h with ctr := h.ctr ++ [if (monitor h l).length = 0 then evaluations h l else (monitor h l).length] },
   { l with solverCtr := h.ctr.length, closureCtr := h.ctr.length, closureMon := l.solverMon })

end MysticVerif.Checkpoint
