/-
C07, part 1: the configuration record of `mystic/abstract_solver.py` and one function per `Set*` method.

`Cfg` lists every attribute that the `Set*` methods of AbstractSolver / AbstractMapSolver (and the two overrides
in differential_evolution.py) read or write; `apply` is a literal transcription of those methods (file + line
numbers in the comments, pinned tree).  User objects (callables, monitors, maps, termination conditions, file
names) are identified by natural numbers (`none` = the solver's built-in default); monitor contents are lists of
record labels.  Numbers (`R`) only occur in the strict ranges and in the initial population.

The random source is a stream `u : Nat → R` of `random.random()` values and a position `rngPos` in it:
`random.uniform(a, b)` is `a + (b - a) * random()` (CPython `Lib/random.py`).

`writes` / `reads` / `fin` are the footprint table of the setters and `Independent` the syntactic independence
test built from it (DESIGN.md, C07).  No Mathlib imports (linked into `mvdrv`).
-/
import MysticVerif.Model.Solver

namespace MysticVerif.Config
open MysticVerif.Solver (Lim)

/-- which class the method is looked up on: the `Set*` methods are those of AbstractSolver except
    `SetConstraints` (overridden by both DE solvers: "doesn't use wrap_nested", no `Finalize`),
    `Finalize` (overridden by Powell) and `SetInitialPoints`/`SetRandomInitialPoints` (ensembles: must be
    overwritten, raise NotImplementedError) -/
inductive Kind where
  | abstract   -- AbstractSolver itself / NelderMeadSimplexSolver (no override among the Set*)
  | de         -- DifferentialEvolutionSolver and DifferentialEvolutionSolver2
  | powell     -- PowellDirectionalSolver
  | ensemble   -- AbstractEnsembleSolver (Lattice, Buckshot, ...)
  deriving DecidableEq, Repr, Inhabited

/-- a monitor object: identity (`0` = an object the harness does not track, e.g. a fresh `Monitor()`),
    `Null()` or not, and its records (oldest first) -/
structure Mon where
  id : Nat
  null : Bool
  recs : List Nat
  deriving DecidableEq, Repr, Inhabited

def nullMon : Mon := { id := 0, null := true, recs := [] }

/-- what `_boundsconstraints(**args)` returned (abstract_solver.py l.400-441) -/
inductive BndMode where
  | ident                    -- `lambda x: x`
  | symbolic                 -- `boundsconstrain(min, max, symbolic=True, clip=True)`
  | impose (clip : Bool)     -- `boundsconstrain(min, max, symbolic=False, clip=clip)`
  deriving DecidableEq, Repr, Inhabited

/-- the solver attributes the `Set*` methods touch (abstract_solver.py `__init__` l.113-162,
    abstract_map_solver.py l.113-122) -/
structure Cfg (R : Type) where
  -- static
  kind : Kind
  nDim : Nat
  dmin : List R                         -- `_defaultMin`
  dmax : List R                         -- `_defaultMax`
  best : Nat                            -- label of the record `(bestSolution, bestEnergy)` (Powell's Finalize logs it)
  fcalls : Nat                          -- `_fcalls[0]`   (no Set* writes it)
  -- recorded settings
  reducer : Option (Nat × Bool)         -- `_reducer`: (callable, arraylike) ; `none` = None
  penalty : Option Nat                  -- `_penalty`     (`none` = `lambda x: 0.0`)
  constraints : Option Nat              -- `_constraints` (`none` = `lambda x: x`)
  termination : Option Nat              -- `_termination` (`none` = AbstractSolver's default)
  collapse : Bool                       -- `_collapse`
  stepmon : Mon                         -- `_stepmon`
  evalmon : Mon                         -- `_evalmon`
  ehist : Option Nat                    -- `_energy_history`   override (its length) or None
  shist : Option Nat                    -- `_solution_history` override (its length) or None
  useStrict : Bool                      -- `_useStrictRange`
  tight : Option Bool                   -- `_useTightRange`
  clip : Option Bool                    -- `_useClipRange`
  smin : List R                         -- `_strictMin`
  smax : List R                         -- `_strictMax`
  bnd : BndMode                         -- `_strictbounds`
  maxiter : Lim                         -- `_maxiter`
  maxfun : Lim                          -- `_maxfun`
  costRaw : Option Nat                  -- `_cost[1]`
  decorated : Bool                      -- `_cost[0] is not None`
  live : Bool                           -- `_live`
  saveiter : Option Nat                 -- `_saveiter`
  state : Option Nat                    -- `_state`
  map : Nat                             -- `_map`        (`0` = python_map)
  mapcfg : Nat                          -- `_mapconfig`
  sigint : Bool                         -- `_handle_sigint`
  population : List (List R)
  rngPos : Nat                          -- number of `random.random()` values consumed so far
  deriving Inhabited

/-- the `Set*` methods (and the two signal-handler switches) with their arguments -/
inductive Op (R : Type) where
  | setReducer (f : Option Nat) (arraylike : Bool)
  | setPenalty (p : Option Nat)
  | setConstraints (c : Option Nat)
  | setGenerationMonitor (m : Option Mon) (new : Bool)
  | setEvaluationMonitor (m : Option Mon) (new : Bool)
  | setStrictRanges (off : Bool) (min max : Option (List R)) (tight clip : Option Bool)
  | setEvaluationLimits (g e : Option Nat) (new : Bool)
  | setTermination (t : Option Nat) (collapses : Bool)
  | setObjective (c : Nat)
  | setSaveFrequency (g f : Option Nat)
  | setMapper (m cfg : Nat)
  | setSigint (b : Bool)
  | setInitialPoints (x0 : List R) (radius : R)
  | setRandomInitialPoints (min max : Option (List R))
  deriving Inhabited

variable {R : Type}

/-- "the solver is a live Powell solver": the only situation in which `Finalize` does more than clearing `_live` -/
def Cfg.pl (s : Cfg R) : Bool := decide (s.kind = .powell) && s.live

/-- `Finalize()`: abstract_solver.py l.1018-1021; PowellDirectionalSolver scipy_optimize.py l.748-756
    (`energy_history != None` always holds: it is a list) -/
def Cfg.finalize (s : Cfg R) : Cfg R :=
  if s.pl = true then
    { s with ehist := none, stepmon := { s.stepmon with recs := s.stepmon.recs ++ [s.best] }, live := false }
  else { s with live := false }

/-- `generations`: `max(0, len(_stepmon)-1)` (l.172-174); Powell: `max(0, len(energy_history)-1)` (l.588-590) -/
def Cfg.gens (s : Cfg R) : Nat :=
  if s.kind = .powell then (s.ehist.getD s.stepmon.recs.length) - 1 else s.stepmon.recs.length - 1

/-- `SetGenerationMonitor(monitor, new)` l.277-301 -/
def Cfg.setGenMon (s : Cfg R) (m : Option Mon) (new : Bool) : Cfg R :=
  let cur : List Nat := if new = true then [] else s.stepmon.recs          -- `Null() if new else self._stepmon`
  match m with
  | none => { s with stepmon := { id := 0, null := false, recs := cur }, ehist := none, shist := none }
  | some mon =>
    if mon.null = true then                                                -- `Monitor()` ; don't allow Null
      { s with stepmon := { id := 0, null := false, recs := cur }, ehist := none, shist := none }
    else if (mon.id ≠ 0 ∧ mon.id = s.stepmon.id) then                      -- `if current is monitor: current = Null()`
      { s with ehist := none, shist := none }
    else { s with stepmon := { mon with recs := cur ++ mon.recs }, ehist := none, shist := none }

/-- `SetEvaluationMonitor(monitor, new)` l.303-325 (a `Null()` is accepted and drops the contents) -/
def Cfg.setEvalMon (s : Cfg R) (m : Option Mon) (new : Bool) : Cfg R :=
  let cur : List Nat := if new = true then [] else s.evalmon.recs
  match m with
  | none => { s with evalmon := nullMon }
  | some mon =>
    if mon.null = true then { s with evalmon := nullMon }
    else if (mon.id ≠ 0 ∧ mon.id = s.evalmon.id) then s
    else { s with evalmon := { mon with recs := cur ++ mon.recs } }

/-- `numpy.any(min > max)` -/
def anyGt [LT R] [DecidableLT R] (mn mx : List R) : Bool :=
  (List.zipWith (fun a b => decide (b < a)) mn mx).any id

/-- `SetStrictRanges(min, max, tight=, clip=)` l.327-398; `off` = `min is False or max is False` -/
def Cfg.setStrictRanges [LT R] [DecidableLT R] (s : Cfg R) (off : Bool) (min max : Option (List R))
    (tight clip : Option Bool) : Cfg R × Bool :=
  if (clip.isSome && tight == some false) = true then (s, true)     -- ValueError, nothing written yet (l.369-370)
  else
    let mode : BndMode :=
      match clip with
      | none => if tight == some true then .symbolic else .ident       -- args = {symbolic: True} if tight else {}
      | some c => .impose c                                            -- args = {symbolic: False, clip: clip}
    let s1 : Cfg R := { s with tight := tight, clip := clip }          -- l.374-375 (written before the checks)
    if off = true then
      (({ s1 with useStrict := false, bnd := .ident } : Cfg R).finalize, false)   -- l.377-380
    else
      let mn := min.getD s.dmin
      let mx := max.getD s.dmax
      if anyGt mn mx = true then (s1, true)                            -- l.390-391
      else if mn.length ≠ s.nDim then (s1, true)                       -- l.392-393
      else (({ s1 with useStrict := true, smin := mn, smax := mx, bnd := mode } : Cfg R).finalize, false)

/-- `SetEvaluationLimits(generations, evaluations, new)` l.615-637 -/
def Cfg.setLimits (s : Cfg R) (g e : Option Nat) (new : Bool) : Cfg R :=
  if new = true then
    { s with maxiter := (match g with | some n => .val (n + s.gens) | none => .star),
             maxfun := (match e with | some n => .val (n + s.fcalls) | none => .star) }
  else
    { s with maxiter := (match g with | some n => .val n | none => .none),
             maxfun := (match e with | some n => .val n | none => .none) }

/-- `random.uniform(a, b)` with the underlying `random()` value `r` -/
def uniform [Add R] [Sub R] [Mul R] (r a b : R) : R := a + (b - a) * r

/-- `SetRandomInitialPoints(min, max)` l.500-526: `population[i][j] = random.uniform(min[j], max[j])`, row by row -/
def Cfg.setRandom [Add R] [Sub R] [Mul R] [OfNat R 0] (u : Nat → R) (s : Cfg R) (min max : Option (List R)) :
    Cfg R × Bool :=
  match s.kind with
  | .ensemble => (s, true)                                             -- NotImplementedError("must be overwritten...")
  | _ =>
    let mn := min.getD s.dmin
    let mx := max.getD s.dmax
    if (mn.length ≠ s.nDim ∨ mx.length ≠ s.nDim) then (s, true)        -- l.517-518
    else
      let n := s.population.length
      ({ s with population := (List.range n).map fun i => (List.range s.nDim).map fun j =>
                                  uniform (u (s.rngPos + i * s.nDim + j)) (mn.getD j 0) (mx.getD j 0),
                rngPos := s.rngPos + n * s.nDim }, false)

/-- `SetInitialPoints(x0, radius)` l.464-498 -/
def Cfg.setInitial [Add R] [Sub R] [Mul R] [Neg R] [OfNat R 0] [OfNat R 1] [BEq R] (u : Nat → R) (s : Cfg R)
    (x0 : List R) (radius : R) : Cfg R × Bool :=
  match s.kind with
  | .ensemble => (s, true)
  | _ =>
    if x0.length ≠ s.nDim then (s, true)                               -- l.482-483
    else
      let mn := (x0.map (fun x => x * (1 - radius))).map (fun v => if v == 0 then -radius else v)   -- l.492,494
      let mx := (x0.map (fun x => x * (1 + radius))).map (fun v => if v == 0 then radius else v)    -- l.493,495
      let r := s.setRandom u (some mn) (some mx)
      ({ r.1 with population := r.1.population.set 0 x0 }, r.2)         -- l.498

/-- one `Set*` call: the new configuration and whether the call raised -/
def apply [Add R] [Sub R] [Mul R] [Neg R] [OfNat R 0] [OfNat R 1] [BEq R] [LT R] [DecidableLT R]
    (u : Nat → R) (s : Cfg R) : Op R → Cfg R × Bool
  -- l.221-240  (`wrap_reducer` unless arraylike), then `_update_objective` = `Finalize`
  | .setReducer f al => (({ s with reducer := f.map (fun i => (i, al)) } : Cfg R).finalize, false)
  -- l.242-259
  | .setPenalty p => (({ s with penalty := p } : Cfg R).finalize, false)
  -- l.261-275 ; differential_evolution.py l.203-218 / l.447-462: no `_update_objective`
  | .setConstraints c =>
    if s.kind = .de then ({ s with constraints := c }, false)
    else (({ s with constraints := c } : Cfg R).finalize, false)
  | .setGenerationMonitor m new => (s.setGenMon m new, false)
  | .setEvaluationMonitor m new => (s.setEvalMon m new, false)
  | .setStrictRanges off mn mx tight clip => s.setStrictRanges off mn mx tight clip
  | .setEvaluationLimits g e new => (s.setLimits g e new, false)
  -- l.716-737
  | .setTermination t collapses => ({ s with termination := t, collapse := t.isSome && collapses }, false)
  -- l.739-770 (ExtraArgs = None)
  | .setObjective c =>
    if s.costRaw = some c then (s, false)
    else ({ s with costRaw := some c, decorated := false, live := false }, false)
  -- l.601-613
  | .setSaveFrequency g f => ({ s with saveiter := g, state := f }, false)
  -- abstract_map_solver.py l.125-136
  | .setMapper m c => ({ s with map := m, mapcfg := c }, false)
  -- l.581-599
  | .setSigint b => ({ s with sigint := b }, false)
  | .setInitialPoints x0 radius => s.setInitial u x0 radius
  | .setRandomInitialPoints mn mx => s.setRandom u mn mx

/-- a whole configuration phase: the calls in the given order -/
def cfgAfter [Add R] [Sub R] [Mul R] [Neg R] [OfNat R 0] [OfNat R 1] [BEq R] [LT R] [DecidableLT R]
    (u : Nat → R) (s : Cfg R) (l : List (Op R)) : Cfg R :=
  l.foldl (fun s op => (apply u s op).1) s

/-- which calls raised, in call order -/
def raisedAfter [Add R] [Sub R] [Mul R] [Neg R] [OfNat R 0] [OfNat R 1] [BEq R] [LT R] [DecidableLT R]
    (u : Nat → R) (s : Cfg R) : List (Op R) → List Bool
  | [] => []
  | op :: l => (apply u s op).2 :: raisedAfter u (apply u s op).1 l

/-- random numbers consumed by a configuration phase -/
def rngConsumed [Add R] [Sub R] [Mul R] [Neg R] [OfNat R 0] [OfNat R 1] [BEq R] [LT R] [DecidableLT R]
    (u : Nat → R) (s : Cfg R) (l : List (Op R)) : Nat :=
  (cfgAfter u s l).rngPos - s.rngPos

/-! ### the footprint table -/

/-- groups of attributes -/
inductive Field where
  | reducer | penalty | constraints | termination | stepmon | evalmon | hist | ranges | limits | cost | live
  | save | map | sigint | population | rng | fcalls
  deriving DecidableEq, Repr

/-- attributes the call itself assigns (the trailing `Finalize` is accounted for by `fin`) -/
def writes : Op R → List Field
  | .setReducer .. => [.reducer]
  | .setPenalty .. => [.penalty]
  | .setConstraints .. => [.constraints]
  | .setGenerationMonitor .. => [.stepmon, .hist]
  | .setEvaluationMonitor .. => [.evalmon]
  | .setStrictRanges .. => [.ranges]
  | .setEvaluationLimits .. => [.limits]
  | .setTermination .. => [.termination]
  | .setObjective .. => [.cost, .live]
  | .setSaveFrequency .. => [.save]
  | .setMapper .. => [.map]
  | .setSigint .. => [.sigint]
  | .setInitialPoints .. => [.population, .rng]
  | .setRandomInitialPoints .. => [.population, .rng]

/-- non-static attributes whose current value influences what the call does -/
def reads : Op R → List Field
  | .setGenerationMonitor .. => [.stepmon]                    -- the current monitor is prepended
  | .setEvaluationMonitor .. => [.evalmon]
  | .setEvaluationLimits _ _ new => if new = true then [.stepmon, .hist, .fcalls] else []   -- the counters
  | .setObjective .. => [.cost]
  | .setInitialPoints .. => [.population, .rng]
  | .setRandomInitialPoints .. => [.population, .rng]
  | _ => []

/-- does the call end in `_update_objective()` = `Finalize()` ? -/
def fin (k : Kind) : Op R → Bool
  | .setReducer .. => true
  | .setPenalty .. => true
  | .setStrictRanges .. => true
  | .setConstraints .. => decide (k ≠ .de)
  | _ => false

/-- random-number consumers -/
def consumesRng : Op R → Bool
  | .setInitialPoints .. => true
  | .setRandomInitialPoints .. => true
  | _ => false

/-- what `Finalize` touches: `_live`; on a live Powell solver also the step monitor and the history override -/
def finFp (pl : Bool) : List Field := if pl = true then [.live, .stepmon, .hist] else [.live]

def disj (a b : List Field) : Bool := a.all fun f => !b.contains f

/-- syntactic independence of two calls on a solver of kind `k` (`pl`: it is a live Powell solver).
    Own writes are disjoint from everything the other call reads or writes; the shared trailing `Finalize` is
    idempotent, so two finalising calls do not conflict with each other, only with calls that read or write what
    `Finalize` touches. -/
def Independent (pl : Bool) (k : Kind) (a b : Op R) : Bool :=
  disj (writes a) (writes b) && disj (writes a) (reads b) && disj (writes b) (reads a)
  && (if fin k a = true then disj (finFp pl) (writes b ++ reads b) else true)
  && (if fin k b = true then disj (finFp pl) (writes a ++ reads a) else true)

/-- pairwise independence of a list of calls -/
def PairwiseIndependent (pl : Bool) (k : Kind) : List (Op R) → Bool
  | [] => true
  | a :: l => l.all (fun b => Independent pl k a b) && PairwiseIndependent pl k l

end MysticVerif.Config
