/-
C07, part 1: the configuration record of `mystic/abstract_solver.py` and one function per `Set*` method.

`Cfg` lists every attribute that the `Set*` methods of AbstractSolver / AbstractMapSolver (and the two overrides
in differential_evolution.py) read or write, grouped the way the methods use them; `own` is a transcription of
the method bodies (file + line numbers in the comments, pinned tree), `apply` adds the trailing
`_update_objective()` = `Finalize()` and the ensemble solvers' "must be overwritten" stubs.
User objects (callables, monitors, maps, termination conditions, file names) are identified by natural numbers
(`none` = the solver's built-in default); monitor contents are lists of record labels.  Numbers (`R`) only occur
in the strict ranges and in the initial population.

Every method body has the shape "assign these attributes a value computed from the arguments and from those
attributes" - the conditionals (argument checks that raise, `new`, `current is monitor`, ...) live inside the
computed values, so that the footprint of a method can be read off its definition.

The random source is a stream `u : Nat → R` of `random.random()` values and a position `rngPos` in it:
`random.uniform(a, b)` is `a + (b - a) * random()` (CPython `Lib/random.py`).

`writes` / `reads` / `fin` are the footprint table of the setters and `Independent` the syntactic independence
test built from it (DESIGN.md, C07).  No Mathlib imports (linked into `mvdrv`).
-/
import MysticVerif.Model.Solver

namespace MysticVerif.Config
open MysticVerif.Solver (Lim)

/-- which class the method is looked up on: the `Set*` methods are those of AbstractSolver except
    `SetConstraints` (overridden by both DE solvers: "doesn't use wrap_nested", no `Finalize`),
    `Finalize` (overridden by Powell) and `SetInitialPoints`/`SetRandomInitialPoints` (ensembles: must be
    overwritten, raise NotImplementedError) -/
inductive Kind where
  | abstract   -- AbstractSolver itself / NelderMeadSimplexSolver (no override among the Set*)
  | de         -- DifferentialEvolutionSolver and DifferentialEvolutionSolver2
  | powell     -- PowellDirectionalSolver
  | ensemble   -- AbstractEnsembleSolver (Lattice, Buckshot, ...)
  deriving DecidableEq, Repr, Inhabited

/-- a monitor object: identity (`0` = an object the harness does not track, e.g. a fresh `Monitor()`),
    `Null()` or not, and its records (oldest first) -/
structure Mon where
  id : Nat
  null : Bool
  recs : List Nat
  deriving DecidableEq, Repr, Inhabited

def nullMon : Mon := { id := 0, null := true, recs := [] }

/-- what `_boundsconstraints(**args)` returned (abstract_solver.py l.400-441) -/
inductive BndMode where
  | ident                    -- `lambda x: x`
  | symbolic                 -- `boundsconstrain(min, max, symbolic=True, clip=True)`
  | impose (clip : Bool)     -- `boundsconstrain(min, max, symbolic=False, clip=clip)`
  deriving DecidableEq, Repr, Inhabited

/-- `_termination`, `_collapse` -/
structure Term where
  termination : Option Nat := none      -- `none` = AbstractSolver's default
  collapse : Bool := false
  deriving DecidableEq, Repr, Inhabited

/-- `_energy_history` / `_solution_history` overrides (their lengths) or None -/
structure Hist where
  ehist : Option Nat := none
  shist : Option Nat := none
  deriving DecidableEq, Repr, Inhabited

/-- `_useStrictRange, _useTightRange, _useClipRange, _strictMin, _strictMax, _strictbounds` -/
structure Ranges (R : Type) where
  useStrict : Bool := false
  tight : Option Bool := none
  clip : Option Bool := none
  smin : List R := []
  smax : List R := []
  bnd : BndMode := .ident
  deriving Inhabited

/-- `_maxiter`, `_maxfun` -/
structure Limits where
  maxiter : Lim := .none
  maxfun : Lim := .none
  deriving DecidableEq, Repr, Inhabited

/-- `_cost = (cost, raw_cost, args)` -/
structure Cost where
  raw : Option Nat := none              -- `_cost[1]`
  decorated : Bool := false             -- `_cost[0] is not None`
  deriving DecidableEq, Repr, Inhabited

/-- `_saveiter`, `_state` -/
structure Save where
  saveiter : Option Nat := none
  state : Option Nat := none
  deriving DecidableEq, Repr, Inhabited

/-- `_map` (`0` = python_map), `_mapconfig` -/
structure MapC where
  map : Nat := 0
  mapcfg : Nat := 0
  deriving DecidableEq, Repr, Inhabited

/-- the population and the position in the random stream -/
structure Pop (R : Type) where
  population : List (List R) := []
  rngPos : Nat := 0                     -- number of `random.random()` values consumed so far
  deriving Inhabited

/-- the solver attributes the `Set*` methods touch (abstract_solver.py `__init__` l.113-162,
    abstract_map_solver.py l.113-122) -/
structure Cfg (R : Type) where
  -- static (no Set* writes them)
  kind : Kind
  nDim : Nat
  dmin : List R                         -- `_defaultMin`
  dmax : List R                         -- `_defaultMax`
  best : Nat                            -- label of the record `(bestSolution, bestEnergy)` (Powell's Finalize logs it)
  fcalls : Nat                          -- `_fcalls[0]`
  bestIdx : Nat                         -- `list(self.popEnergy).index(self.bestEnergy)` (no Set* touches the energies)
  -- recorded settings
  reducer : Option (Nat × Bool)         -- `_reducer`: (callable, arraylike) ; `none` = None
  penalty : Option Nat                  -- `_penalty`     (`none` = `lambda x: 0.0`)
  constraints : Option Nat              -- `_constraints` (`none` = `lambda x: x`)
  term : Term
  stepmon : Mon                         -- `_stepmon`
  evalmon : Mon                         -- `_evalmon`
  hist : Hist
  ranges : Ranges R
  limits : Limits
  cost : Cost
  live : Bool                           -- `_live`
  save : Save
  mapc : MapC
  sigint : Bool                         -- `_handle_sigint`
  pop : Pop R
  -- ghost: how often `_decorate_objective` has run on this solver (observed from the harness: a new wrapped
  -- objective `_cost[0]` appears).  No `Set*` is supposed to change it: decoration is deferred to the next `Step`.
  ndec : Nat := 0
  deriving Inhabited

/-- the `Set*` methods (and the two signal-handler switches) with their arguments -/
inductive Op (R : Type) where
  | setReducer (f : Option Nat) (arraylike : Bool)
  | setPenalty (p : Option Nat)
  | setConstraints (c : Option Nat)
  | setGenerationMonitor (m : Option Mon) (new : Bool)
  | setEvaluationMonitor (m : Option Mon) (new : Bool)
  | setStrictRanges (off : Bool) (min max : Option (List R)) (tight clip : Option Bool)
  | setEvaluationLimits (g e : Option Nat) (new : Bool)
  | setTermination (t : Option Nat) (collapses : Bool)
  | setObjective (c : Nat)
  | setSaveFrequency (g f : Option Nat)
  | setMapper (m cfg : Nat)
  | setSigint (b : Bool)
  | setInitialPoints (x0 : List R) (radius : R)
  | setRandomInitialPoints (min max : Option (List R))
  deriving Inhabited

variable {R : Type}

/-- "the solver is a live Powell solver": the only situation in which `Finalize` does more than clearing `_live` -/
def Cfg.pl (s : Cfg R) : Bool := decide (s.kind = .powell) && s.live

/-- label of a restart file name created by `SaveSolver()` itself (`tempfile.mkstemp`) -/
def tmpState : Nat := 499

/-- `__save_state()` (abstract_solver.py l.989-1007) as reached from Powell's `Finalize`: after `_saveiter`
    generations the solver is dumped; without a registered file name `SaveSolver` creates one and keeps it -/
def saveDue (saveiter : Option Nat) (gens : Nat) : Bool :=
  match saveiter with
  | some (n + 1) => gens % (n + 1) == 0
  | _ => false

/-- `Finalize()`: abstract_solver.py l.1018-1021; PowellDirectionalSolver scipy_optimize.py l.748-756
    (`energy_history != None` always holds: it is a list): when live, resync the energy history, log the best
    and save the state if the save frequency matches; clear `_live`.  `pl` = "a live Powell solver". -/
def Cfg.finalizeWith (pl : Bool) (s : Cfg R) : Cfg R :=
  { s with hist := (if pl = true then { s.hist with ehist := none } else s.hist),
           stepmon := (if pl = true then { s.stepmon with recs := s.stepmon.recs ++ [s.best] } else s.stepmon),
           save := (if (pl && saveDue s.save.saveiter s.stepmon.recs.length) = true
                    then { s.save with state := some (s.save.state.getD tmpState) } else s.save),
           live := false }

def Cfg.finalize (s : Cfg R) : Cfg R := s.finalizeWith s.pl

/-- `generations`: `max(0, len(_stepmon)-1)` (l.172-174); Powell: `max(0, len(energy_history)-1)` (l.588-590) -/
def gensOf (k : Kind) (stepmon : Mon) (hist : Hist) : Nat :=
  if k = .powell then (hist.ehist.getD stepmon.recs.length) - 1 else stepmon.recs.length - 1

def Cfg.gens (s : Cfg R) : Nat := gensOf s.kind s.stepmon s.hist

/-- `SetGenerationMonitor(monitor, new)` l.277-298: the new `_stepmon` -/
def newStepmon (cur : Mon) (m : Option Mon) (new : Bool) : Mon :=
  let old : List Nat := if new = true then [] else cur.recs              -- `Null() if new else self._stepmon`
  match m with
  | none => { id := 0, null := false, recs := old }                      -- `Monitor()` ; don't allow Null
  | some mon =>
    if mon.null = true then { id := 0, null := false, recs := old }
    else if (mon.id ≠ 0 ∧ mon.id = cur.id) then cur                      -- `if current is monitor: current = Null()`
    else { mon with recs := old ++ mon.recs }                            -- `monitor.prepend(current)`

/-- `SetEvaluationMonitor(monitor, new)` l.303-325 (a `Null()` is accepted and drops the contents) -/
def newEvalmon (cur : Mon) (m : Option Mon) (new : Bool) : Mon :=
  let old : List Nat := if new = true then [] else cur.recs
  match m with
  | none => nullMon
  | some mon =>
    if mon.null = true then nullMon
    else if (mon.id ≠ 0 ∧ mon.id = cur.id) then cur
    else { mon with recs := old ++ mon.recs }

/-- `numpy.any(min > max)` -/
def anyGt [LT R] [DecidableLT R] (mn mx : List R) : Bool :=
  (List.zipWith (fun a b => decide (b < a)) mn mx).any id

/-- `SetStrictRanges`: does it raise, and where?  `1`: `clip` given with `tight=False` (l.369-370, nothing written
    yet); `2`: `min > max` somewhere or wrong length (l.390-393, `_useTightRange/_useClipRange` already written) -/
def rangesRaise [LT R] [DecidableLT R] (nDim : Nat) (dmin dmax : List R) (off : Bool) (min max : Option (List R))
    (tight clip : Option Bool) : Nat :=
  if (clip.isSome && tight == some false) = true then 1
  else if off = true then 0
  else if anyGt (min.getD dmin) (max.getD dmax) = true then 2
  else if (min.getD dmin).length ≠ nDim then 2
  else 0

/-- `SetStrictRanges(min, max, tight=, clip=)` l.327-398; `off` = `min is False or max is False` -/
def newRanges [LT R] [DecidableLT R] (nDim : Nat) (dmin dmax : List R) (cur : Ranges R) (off : Bool)
    (min max : Option (List R)) (tight clip : Option Bool) : Ranges R :=
  let mode : BndMode :=
    match clip with
    | none => if tight == some true then .symbolic else .ident         -- args = {symbolic: True} if tight else {}
    | some c => .impose c                                              -- args = {symbolic: False, clip: clip}
  match rangesRaise nDim dmin dmax off min max tight clip with
  | 1 => cur
  | 2 => { cur with tight := tight, clip := clip }                     -- l.374-375 (written before the checks)
  | _ =>
    if off = true then { cur with tight := tight, clip := clip, useStrict := false, bnd := .ident }  -- l.377-379
    else { tight := tight, clip := clip, useStrict := true, smin := min.getD dmin, smax := max.getD dmax,
           bnd := mode }                                               -- l.394-397

/-- `SetEvaluationLimits(generations, evaluations, new)` l.615-637 -/
def newLimits (gens fcalls : Nat) (g e : Option Nat) (new : Bool) : Limits :=
  if new = true then
    { maxiter := (match g with | some n => .val (n + gens) | none => .star),
      maxfun := (match e with | some n => .val (n + fcalls) | none => .star) }
  else
    { maxiter := (match g with | some n => .val n | none => .none),
      maxfun := (match e with | some n => .val n | none => .none) }

/-- `random.uniform(a, b)` with the underlying `random()` value `r` -/
def uniform [Add R] [Sub R] [Mul R] (r a b : R) : R := a + (b - a) * r

/-- `SetRandomInitialPoints(min, max)` raises: bounds of the wrong length (l.517-518) -/
def randomRaise (nDim : Nat) (dmin dmax : List R) (min max : Option (List R)) : Bool :=
  decide ((min.getD dmin).length ≠ nDim ∨ (max.getD dmax).length ≠ nDim)

/-- `SetRandomInitialPoints(min, max)` l.500-526: `population[i][j] = random.uniform(min[j], max[j])`, row by row -/
def newPopRandom [Add R] [Sub R] [Mul R] [OfNat R 0] (u : Nat → R) (nDim : Nat) (dmin dmax : List R) (cur : Pop R)
    (min max : Option (List R)) : Pop R :=
  if randomRaise nDim dmin dmax min max = true then cur
  else
    let n := cur.population.length
    { population := (List.range n).map fun i => (List.range nDim).map fun j =>
                      uniform (u (cur.rngPos + i * nDim + j)) ((min.getD dmin).getD j 0) ((max.getD dmax).getD j 0),
      rngPos := cur.rngPos + n * nDim }

/-- `SetInitialPoints(x0, radius)` l.464-498 -/
def newPopInitial [Add R] [Sub R] [Mul R] [Neg R] [OfNat R 0] [OfNat R 1] [BEq R] (u : Nat → R) (nDim : Nat)
    (dmin dmax : List R) (cur : Pop R) (x0 : List R) (radius : R) : Pop R :=
  if x0.length ≠ nDim then cur                                         -- l.482-483
  else
    let mn := (x0.map (fun x => x * (1 - radius))).map (fun v => if v == 0 then -radius else v)   -- l.492,494
    let mx := (x0.map (fun x => x * (1 + radius))).map (fun v => if v == 0 then radius else v)    -- l.493,495
    let r := newPopRandom u nDim dmin dmax cur (some mn) (some mx)
    { r with population := r.population.set 0 x0 }                      -- l.498

/-- the body of one `Set*` method up to (not including) its trailing `_update_objective()`:
    the new configuration and whether the call raised -/
def own [Add R] [Sub R] [Mul R] [Neg R] [OfNat R 0] [OfNat R 1] [BEq R] [LT R] [DecidableLT R]
    (u : Nat → R) (s : Cfg R) : Op R → Cfg R × Bool
  -- l.221-240  (`wrap_reducer` unless arraylike)
  | .setReducer f al => ({ s with reducer := f.map (fun i => (i, al)) }, false)
  -- l.242-259
  | .setPenalty p => ({ s with penalty := p }, false)
  -- l.261-275 ; differential_evolution.py l.203-218 / l.447-462
  | .setConstraints c => ({ s with constraints := c }, false)
  -- l.277-301: the monitor, then `energy_history = None; solution_history = None`
  | .setGenerationMonitor m new => ({ s with stepmon := newStepmon s.stepmon m new, hist := {} }, false)
  -- l.303-325 (followed by `_update_objective()`, see `fin`)
  | .setEvaluationMonitor m new => ({ s with evalmon := newEvalmon s.evalmon m new }, false)
  | .setStrictRanges off mn mx tight clip =>
    ({ s with ranges := newRanges s.nDim s.dmin s.dmax s.ranges off mn mx tight clip },
     decide (rangesRaise s.nDim s.dmin s.dmax off mn mx tight clip ≠ 0))
  | .setEvaluationLimits g e new => ({ s with limits := newLimits (gensOf s.kind s.stepmon s.hist) s.fcalls g e new }, false)
  -- l.716-737
  | .setTermination t collapses => ({ s with term := { termination := t, collapse := t.isSome && collapses } }, false)
  -- l.739-770 (ExtraArgs = None): nothing happens when the cost is the stored one
  | .setObjective c =>
    ({ s with cost := (if s.cost.raw = some c then s.cost else { raw := some c, decorated := false }),
              live := (if s.cost.raw = some c then s.live else false) }, false)
  -- l.601-613
  | .setSaveFrequency g f => ({ s with save := { saveiter := g, state := f } }, false)
  -- abstract_map_solver.py l.125-136
  | .setMapper m c => ({ s with mapc := { map := m, mapcfg := c } }, false)
  -- l.581-599
  | .setSigint b => ({ s with sigint := b }, false)
  | .setInitialPoints x0 radius =>
    ({ s with pop := newPopInitial u s.nDim s.dmin s.dmax s.pop x0 radius },
     decide (x0.length ≠ s.nDim))
  | .setRandomInitialPoints mn mx =>
    ({ s with pop := newPopRandom u s.nDim s.dmin s.dmax s.pop mn mx }, randomRaise s.nDim s.dmin s.dmax mn mx)

/-- does the call end in `_update_objective()` = `Finalize()` (l.883-890) ?  The DE solvers override
    `SetConstraints` without it ("doesn't use wrap_nested") -/
def fin (k : Kind) : Op R → Bool
  | .setReducer .. => true
  | .setPenalty .. => true
  | .setStrictRanges .. => true
  | .setEvaluationMonitor .. => true        -- since /repo 701fd45: "re-decorates the objective like the other Set*"
  | .setConstraints .. => decide (k ≠ .de)
  | _ => false

/-- ensemble solvers: "*** this method must be overwritten ***" (abstract_ensemble_solver.py l.240-270) -/
def blocked (k : Kind) : Op R → Bool
  | .setInitialPoints .. => decide (k = .ensemble)
  | .setRandomInitialPoints .. => decide (k = .ensemble)
  | _ => false

/-- one `Set*` call: the new configuration and whether the call raised (a call that raises never reaches its
    `_update_objective()`) -/
def apply [Add R] [Sub R] [Mul R] [Neg R] [OfNat R 0] [OfNat R 1] [BEq R] [LT R] [DecidableLT R]
    (u : Nat → R) (s : Cfg R) (op : Op R) : Cfg R × Bool :=
  if blocked s.kind op = true then (s, true)
  else if (fin s.kind op && !(own u s op).2) = true then ((own u s op).1.finalize, (own u s op).2)
  else own u s op

/-- a whole configuration phase: the calls in the given order -/
def cfgAfter [Add R] [Sub R] [Mul R] [Neg R] [OfNat R 0] [OfNat R 1] [BEq R] [LT R] [DecidableLT R]
    (u : Nat → R) (s : Cfg R) (l : List (Op R)) : Cfg R :=
  l.foldl (fun s op => (apply u s op).1) s

/-- which calls raised, in call order -/
def raisedAfter [Add R] [Sub R] [Mul R] [Neg R] [OfNat R 0] [OfNat R 1] [BEq R] [LT R] [DecidableLT R]
    (u : Nat → R) (s : Cfg R) : List (Op R) → List Bool
  | [] => []
  | op :: l => (apply u s op).2 :: raisedAfter u (apply u s op).1 l

/-- random numbers consumed by a configuration phase -/
def rngConsumed [Add R] [Sub R] [Mul R] [Neg R] [OfNat R 0] [OfNat R 1] [BEq R] [LT R] [DecidableLT R]
    (u : Nat → R) (s : Cfg R) (l : List (Op R)) : Nat :=
  (cfgAfter u s l).pop.rngPos - s.pop.rngPos

/-! ### the deferred decoration: what the next `Step` does (`_bootstrap_objective` -> `_decorate_objective`)

`_update_objective()` (abstract_solver.py l.883-890) is `if False: # trigger immediately ... else: self.Finalize()`:
a `Set*` on a LIVE solver only records the setting and clears `_live`; the objective is re-decorated by the next
`Step` (`_bootstrap_objective` l.928-942), exactly once however many `Set*` calls were made.  Under strict ranges a
decoration moves the population into the box and - once a generation has run - draws one `random.uniform` per
member other than the best one: WHEN and HOW OFTEN the decoration runs is visible in the trajectory of a stochastic
solver. -/

/-- numpy `x.clip(min, max)` on one coordinate: `MIN(MAX(x, min), max)` with `MAX(a, b) = a > b ? a : b` and
    `MIN(a, b) = a < b ? a : b` (numpy `_NPY_CLIP`; a coordinate equal to a bound becomes the bound) -/
def clipCoord [LT R] [DecidableLT R] (lo hi x : R) : R :=
  if (if lo < x then x else lo) < hi then (if lo < x then x else lo) else hi

/-- `_clipGuessWithinRangeBoundary(x0, at)` (abstract_solver.py l.443-462).  `at`: clip at the bounds;
    otherwise every coordinate the clipping would change is replaced by `random.uniform(min, max)` - ONE
    `random.random()` value `r` for the whole vector (`a + (b - a) * random()` on arrays), drawn whether or not
    a coordinate is outside -/
def clipGuess [Add R] [Sub R] [Mul R] [BEq R] [LT R] [DecidableLT R] (smin smax : List R) (at_ : Bool) (r : R)
    (x : List R) : List R :=
  if smin.isEmpty = true then x                                          -- l.453 `if not len(self._strictMin)`
  else (x.zip (smin.zip smax)).map fun t =>
    if at_ = true then clipCoord t.2.1 t.2.2 t.1                         -- l.456-458
    else if (clipCoord t.2.1 t.2.2 t.1 != t.1) = true then uniform r t.2.1 t.2.2 else t.1   -- l.460-461

/-- the loop `for i in range(self.nPop): population[i] = _clipGuessWithinRangeBoundary(population[i],
    (not ngen) or (i == indx))` (abstract_solver.py l.910-913, differential_evolution.py l.236-241 / l.483-488):
    members from index `i` on, `pos` = position in the random stream; returns the members and the new position -/
def decoratePop [Add R] [Sub R] [Mul R] [BEq R] [LT R] [DecidableLT R] (u : Nat → R) (gens bestIdx : Nat)
    (smin smax : List R) : List (List R) → Nat → Nat → List (List R) × Nat
  | [], _, pos => ([], pos)
  | x :: xs, i, pos =>
    if (decide (gens = 0) || decide (i = bestIdx)) = true then
      (clipGuess smin smax true (u pos) x :: (decoratePop u gens bestIdx smin smax xs (i + 1) pos).1,
       (decoratePop u gens bestIdx smin smax xs (i + 1) pos).2)
    else if smin.isEmpty = true then
      (x :: (decoratePop u gens bestIdx smin smax xs (i + 1) pos).1,
       (decoratePop u gens bestIdx smin smax xs (i + 1) pos).2)
    else
      (clipGuess smin smax false (u pos) x :: (decoratePop u gens bestIdx smin smax xs (i + 1) (pos + 1)).1,
       (decoratePop u gens bestIdx smin smax xs (i + 1) (pos + 1)).2)

/-- `_decorate_objective(cost)` of AbstractSolver (l.892-926; Powell uses it as it is) and of the two DE solvers
    (differential_evolution.py l.220-252 / l.464-498): under strict ranges the population is moved into the box,
    the wrapped objective is stored and the solver is live.  (NelderMeadSimplexSolver overrides it - it rebuilds
    the simplex, scipy_optimize.py l.184-222 - and the ensembles never decorate themselves: the correspondence
    run sends `boot` to DE, DE2 and Powell solvers only.) -/
def Cfg.decorate [Add R] [Sub R] [Mul R] [BEq R] [LT R] [DecidableLT R] (u : Nat → R) (s : Cfg R) : Cfg R :=
  { s with pop := (if s.ranges.useStrict = true then
                     { population := (decoratePop u (gensOf s.kind s.stepmon s.hist) s.bestIdx s.ranges.smin
                                        s.ranges.smax s.pop.population 0 s.pop.rngPos).1,
                       rngPos := (decoratePop u (gensOf s.kind s.stepmon s.hist) s.bestIdx s.ranges.smin
                                    s.ranges.smax s.pop.population 0 s.pop.rngPos).2 }
                   else s.pop),
           cost := { s.cost with decorated := true }, live := true, ndec := s.ndec + 1 }

/-- `_bootstrap_objective(cost)` (l.928-942), the first thing `Step(cost)` does: a live solver whose stored cost is
    `cost` keeps its decorated objective; otherwise `SetObjective(cost)` and ONE decoration -/
def bootstrap [Add R] [Sub R] [Mul R] [Neg R] [OfNat R 0] [OfNat R 1] [BEq R] [LT R] [DecidableLT R]
    (u : Nat → R) (s : Cfg R) (c : Nat) : Cfg R :=
  if (decide (s.cost.raw = some c) && s.live) = true then s
  else (own u s (.setObjective c)).1.decorate u

/-- what a user does to a solver between iterations: a `Set*` call, or (the prelude of) a `Step` -/
inductive Act (R : Type) where
  | set (op : Op R)
  | boot (c : Nat)
  deriving Inhabited

def act [Add R] [Sub R] [Mul R] [Neg R] [OfNat R 0] [OfNat R 1] [BEq R] [LT R] [DecidableLT R]
    (u : Nat → R) (s : Cfg R) : Act R → Cfg R × Bool
  | .set op => apply u s op
  | .boot c => (bootstrap u s c, false)

def actsAfter [Add R] [Sub R] [Mul R] [Neg R] [OfNat R 0] [OfNat R 1] [BEq R] [LT R] [DecidableLT R]
    (u : Nat → R) (s : Cfg R) (l : List (Act R)) : Cfg R :=
  l.foldl (fun s a => (act u s a).1) s

def raisedActs [Add R] [Sub R] [Mul R] [Neg R] [OfNat R 0] [OfNat R 1] [BEq R] [LT R] [DecidableLT R]
    (u : Nat → R) (s : Cfg R) : List (Act R) → List Bool
  | [] => []
  | a :: l => (act u s a).2 :: raisedActs u (act u s a).1 l

/-- NOT the code: `_update_objective` with its dormant branch enabled for live solvers (`if self._live and
    self._cost[1] is not None: self._decorate_objective(...)`, "trigger immediately", l.886-887).  Only used for
    the witness that shows why the decoration has to be deferred (Props/C07 `eager_decoration_witness`). -/
def applyEager [Add R] [Sub R] [Mul R] [Neg R] [OfNat R 0] [OfNat R 1] [BEq R] [LT R] [DecidableLT R]
    (u : Nat → R) (s : Cfg R) (op : Op R) : Cfg R × Bool :=
  if blocked s.kind op = true then (s, true)
  else if (fin s.kind op && !(own u s op).2) = true then
    ((if ((own u s op).1.live && (own u s op).1.cost.raw.isSome) = true then (own u s op).1.decorate u
      else (own u s op).1.finalize), (own u s op).2)
  else own u s op

/-! ### the footprint table -/

/-- groups of attributes -/
inductive Field where
  | reducer | penalty | constraints | termination | stepmon | evalmon | hist | ranges | limits | cost | live
  | save | map | sigint | population | fcalls
  deriving DecidableEq, Repr

/-- attributes the method body assigns (the trailing `Finalize` is accounted for by `fin`);
    `population` stands for the population together with the state of the random source -/
def writes : Op R → List Field
  | .setReducer .. => [.reducer]
  | .setPenalty .. => [.penalty]
  | .setConstraints .. => [.constraints]
  | .setGenerationMonitor .. => [.stepmon, .hist]
  | .setEvaluationMonitor .. => [.evalmon]
  | .setStrictRanges .. => [.ranges]
  | .setEvaluationLimits .. => [.limits]
  | .setTermination .. => [.termination]
  | .setObjective .. => [.cost, .live]
  | .setSaveFrequency .. => [.save]
  | .setMapper .. => [.map]
  | .setSigint .. => [.sigint]
  | .setInitialPoints .. => [.population]
  | .setRandomInitialPoints .. => [.population]

/-- non-static attributes whose current value influences what the call does -/
def reads : Op R → List Field
  | .setGenerationMonitor .. => [.stepmon]                    -- the current monitor is prepended
  | .setEvaluationMonitor .. => [.evalmon]
  | .setEvaluationLimits _ _ new => if new = true then [.stepmon, .hist, .fcalls] else []   -- the counters
  | .setObjective .. => [.cost, .live]
  | .setStrictRanges .. => [.ranges]                          -- a call that raises keeps (part of) the old ranges
  | .setInitialPoints .. => [.population]                     -- population size, position in the random stream
  | .setRandomInitialPoints .. => [.population]
  | _ => []

/-- random-number consumers -/
def consumesRng : Op R → Bool
  | .setInitialPoints .. => true
  | .setRandomInitialPoints .. => true
  | _ => false

/-- what `Finalize` touches: `_live`; on a live Powell solver also the step monitor, the history override and
    the save settings (it may dump the solver and register a restart file) -/
def finFp (pl : Bool) : List Field := if pl = true then [.live, .stepmon, .hist, .save] else [.live]

def disj (a b : List Field) : Bool := a.all fun f => !b.contains f

/-- syntactic independence of two calls on a solver of kind `k` (`pl`: it is a live Powell solver).
    Own writes are disjoint from everything the other call reads or writes; the shared trailing `Finalize` is
    idempotent, so two finalising calls do not conflict with each other, only with calls that read or write what
    `Finalize` touches. -/
def Independent (pl : Bool) (k : Kind) (a b : Op R) : Bool :=
  disj (writes a) (writes b) && disj (writes a) (reads b) && disj (writes b) (reads a)
  && (if fin k a = true then disj (finFp pl) (writes b ++ reads b) else true)
  && (if fin k b = true then disj (finFp pl) (writes a ++ reads a) else true)

/-- pairwise independence of a list of calls -/
def PairwiseIndependent (pl : Bool) (k : Kind) : List (Op R) → Bool
  | [] => true
  | a :: l => l.all (fun b => Independent pl k a b) && PairwiseIndependent pl k l

end MysticVerif.Config
