/-
C06 - checkpoint / resume of PowellDirectionalSolver on top of the Powell-in-S model (`Model/PowellS.lean`).

`PwSnap` is the explicit record of what a restart file of a PowellDirectionalSolver has to carry for `_Step`
(scipy_optimize.py l.608-746):
  * `population[0]`, `popEnergy[0]`                        (l.640-641: `x = self.population[0][:]; fval = self.popEnergy[0]`)
  * `__internals = [x1, fx, bigind, delta]`                (l.642-643, written back l.735)
  * `_direc`                                               (l.639, written back l.713 / l.736; mutated IN PLACE l.708-709)
  * the evaluation monitor and the step monitor            (the decorated cost logs into the first, l.660 / l.715 into the second)
  * whether `energy_history` carries a deferred energy     (`self.energy_history = self.energy_history + [fval]`, l.685 / l.733;
                                                            `generations = max(0, len(energy_history) - 1)`, l.588-590)
  * the number of line searches made so far                (the index into the Brent oracle; no field of the real solver)
The field `reqs` of `Pw` (the line searches REQUESTED so far) is an output only and is not part of the snapshot.

`stepAt` is the dispatch of `_Step` once the step monitor is non-empty (l.666 `elif not self.generations`), decided
from the snapshot alone; `midDump` is the state `__save_state()` pickles in the MIDDLE of `_Step` (l.714-716).
No Mathlib imports (linked into `mvdrv`).
-/
import MysticVerif.Model.PowellS

namespace MysticVerif.PowellS
open MysticVerif.Solver

variable {R E : Type}

structure PwSnap (R E : Type) where
  population0 : Pt R
  popEnergy0 : E
  x1 : Pt R
  fx : E
  bigind : Nat
  delta : E
  direc : List (Pt R)
  evalmon : List (Pt R × E)
  stepmon : List (Pt R × E)
  pending : Bool
  nls : Nat
  deriving DecidableEq, Repr

def PwSnap.save (s : Pw R E) : PwSnap R E :=
  { population0 := s.x, popEnergy0 := s.fval, x1 := s.x1, fx := s.fx, bigind := s.bigind, delta := s.delta,
    direc := s.direc, evalmon := s.log, stepmon := s.stepLog, pending := s.pending, nls := s.nls }

def PwSnap.restore (p : PwSnap R E) : Pw R E :=
  { x := p.population0, fval := p.popEnergy0, x1 := p.x1, fx := p.fx, bigind := p.bigind, delta := p.delta,
    direc := p.direc, log := p.evalmon, stepLog := p.stepmon, pending := p.pending, nls := p.nls, reqs := [] }

/-- a LOSSY restore: `__internals` is dropped and read back as what `PowellDirectionalSolver.__init__` leaves in a
fresh instance (l.580-583: `x1 = population[0]` of the fresh instance, `fx = popEnergy[0]` of the fresh instance,
`bigind = 0`, `delta = 0.0`) -/
def PwSnap.restoreNoInternals (p : PwSnap R E) (x1 : Pt R) (fx : E) (zero : E) : Pw R E :=
  { p.restore with x1 := x1, fx := fx, bigind := 0, delta := zero }

/-- a LOSSY restore: `_direc` is dropped and replaced by `d` (the identity `eye(N)` of l.654, or nothing) -/
def PwSnap.restoreNoDirec (p : PwSnap R E) (d : List (Pt R)) : Pw R E :=
  { p.restore with direc := d }

/-- `generations` (l.588-590): `max(0, len(energy_history) - 1)` -/
def Pw.generations (s : Pw R E) : Nat := s.hist.length - 1

/-- one `_Step` of a solver whose step monitor is not empty (l.666: `elif not self.generations` / l.687 `else`) -/
def stepAt [Sub R] [Mul R] [LT E] [DecidableLT E] (o : Obj (Pt R) E) (c : PwCfg R E) (ls : Nat → Pt R → Pt R → LsRec R)
    (s : Pw R E) : Pw R E :=
  if s.generations = 0 then gen1 o c ls s else genN o c ls s

/-- `n` further `_Step`s from ANY state -/
def steps [Sub R] [Mul R] [LT E] [DecidableLT E] (o : Obj (Pt R) E) (c : PwCfg R E) (ls : Nat → Pt R → Pt R → LsRec R) :
    Nat → Pw R E → Pw R E
  | 0, s => s
  | n + 1, s => steps o c ls n (stepAt o c ls s)

/-- the state `__save_state()` pickles in the middle of `_Step` at generations >= 2 (l.712-716): the NEW
`_direc`, `population[0]`, `popEnergy[0]`, step-monitor record and `energy_history = None`, but the OLD
`__internals` (`self.__internals = [x1, fx, bigind, delta]` is only executed at l.735; `extrapolate` changes `x1` only) -/
def midDump [Sub R] [Mul R] [LT E] [DecidableLT E] (o : Obj (Pt R) E) (c : PwCfg R E) (ls : Nat → Pt R → Pt R → LsRec R)
    (s : Pw R E) : Pw R E :=
  { extrapolate o c ls s with x1 := s.x1 }

/-! ### the two bookkeeping fields: requested searches (output only) and the oracle index -/

def setReqs (r : List (Pt R × Pt R)) (s : Pw R E) : Pw R E := { s with reqs := r }

def addNls (k : Nat) (s : Pw R E) : Pw R E := { s with nls := s.nls + k }

/-- the oracle seen by a solver that has already made `k` line searches -/
def shift (k : Nat) (ls : Nat → Pt R → Pt R → LsRec R) : Nat → Pt R → Pt R → LsRec R := fun j => ls (j + k)

/-! ### the direction set is a MUTABLE array: `direc[bigind] = direc[-1]; direc[-1] = direc1` (l.708-709) writes into the
object `self._direc` points to.  A heap of direction-set arrays and solver objects that hold a pointer into it:
what a copy must not share. -/

/-- the arrays `_direc` attributes point to -/
structure DHeap (R : Type) where
  cells : List (List (Pt R))

/-- a solver object: every field by value except `_direc`, which is a pointer -/
structure PwObj (R E : Type) where
  s : Pw R E            -- (`s.direc` is ignored)
  dptr : Nat

/-- the state `_Step` sees -/
def PwObj.load (h : DHeap R) (p : PwObj R E) : Pw R E := { p.s with direc := h.cells.getD p.dptr [] }

/-- one `_Step` of the object: reads the array, writes the (in place updated) array back into the SAME cell -/
def stepObj [Sub R] [Mul R] [LT E] [DecidableLT E] (o : Obj (Pt R) E) (c : PwCfg R E) (ls : Nat → Pt R → Pt R → LsRec R)
    (h : DHeap R) (p : PwObj R E) : DHeap R × PwObj R E :=
  let s' := stepAt o c ls (p.load h)
  ({ cells := h.cells.set p.dptr s'.direc }, { p with s := s' })

/-- a copy that gets its own array (one pickle of the object graph; `copy.deepcopy`) -/
def deepCopyObj (h : DHeap R) (p : PwObj R E) : DHeap R × PwObj R E :=
  ({ cells := h.cells ++ [h.cells.getD p.dptr []] }, { p with dptr := h.cells.length })

/-- a copy that shares the array (`__copy__`, l.1195-1200: `result.__dict__.update(self.__dict__)`) -/
def shallowCopyObj (h : DHeap R) (p : PwObj R E) : DHeap R × PwObj R E := (h, p)

end MysticVerif.PowellS
