/-
Model of the COMPOSITION MODES of `mystic.symbolic.generate_constraint` (symbolic.py l.1429-1523) and
`generate_penalty` (l.1348-1426) over the generated solver / condition functions of Model/Emitted.lean.

* `compose`   - `ctype=` given (one coupler or a list, l.1505-1511): `cf = lambda x: x; for wrapper, s in zip(ctype,
                solvers): cf = wrapper(s)(cf)` (l.1514-1520) with `coupler.inner` (coupler.py l.49-77: `cf'(x) = cf(s(x))`,
                the solver runs FIRST) or `coupler.outer` (l.20-46: `cf'(x) = s(cf(x))`, the solver runs LAST);
                `inner_proxy` / `outer_proxy` (l.80-115) coincide with them on one-argument calls.
                `ctype=None` is `inner` at every level = `Emitted.chain`.
* `order`     - the list whose `chain` is the same composition (`compose_eq_chain_order`, Props/C13.lean).
* `joinAnd` / `joinOr` - `join=and_ / or_` from `mystic.constraints` (l.1494-1500): every solver becomes a member
                `generate_constraint(s, ctype)` = `s` itself (one level), combined by `constraints.and_ / or_`
                (constraints.py l.521-674), whose model is Model/Combinators.lean (`Comb.and_`, `Comb.or_`).
* `penJoin`   - `generate_penalty(groups, ptype, join=coupler.and_/or_)` (l.1407-1413): one stacked penalty per group,
                combined by `coupler.and_` (coupler.py l.171-208: `linear_equality(lambda x: sum(p(x) for p in ps), k=1)`)
                or `coupler.or_` (l.212-249: `min(...)`), evaluated at iteration 0 of the combining level.
No Mathlib.
-/
import MysticVerif.Model.Emitted
import MysticVerif.Model.Combinators

namespace MysticVerif.Emitted

/-- the coupler a solver is wrapped with -/
inductive CType where
  | inner | outer
  deriving DecidableEq, Repr, Inhabited

/-- the statements in the order `chain` must be given them to reproduce the composition (head = applied LAST):
an `inner` level runs its solver before everything wrapped so far, an `outer` level after it -/
def order {α : Type} (ws : List (CType × α)) : List α :=
  ws.foldl (fun L w => match w.1 with
    | .inner => L ++ [w.2]
    | .outer => w.2 :: L) []

section exec
variable {C R : Type} [Add R] [Sub R] [Mul R] [Div R] [Neg R] [LT R] [DecidableLT R] [BEq R]
  [OfNat R 0] [OfNat R 1]

/-- one level `cf = wrapper(s)(cf)` -/
def step (env : Env C R) (cf : List R → List R) (w : CType × Assign C) : List R → List R :=
  match w.1 with
  | .inner => fun x => cf (w.2.exec env x)
  | .outer => fun x => w.2.exec env (cf x)

/-- `generate_constraint(solvers, ctype=[..])` (join=None) -/
def compose (env : Env C R) (ws : List (CType × Assign C)) (x : List R) : List R :=
  (ws.foldl (step env) id) x

/-- the same with python's exceptions (`none`: a statement raised) -/
def step? (env : Env C R) (cf : List R → Option (List R)) (w : CType × Assign C) : List R → Option (List R) :=
  match w.1 with
  | .inner => fun x => if w.2.defined env x = true then cf (w.2.exec env x) else none
  | .outer => fun x => (cf x).bind fun v => if w.2.defined env v = true then some (w.2.exec env v) else none

def compose? (env : Env C R) (ws : List (CType × Assign C)) (x : List R) : Option (List R) :=
  (ws.foldl (step? env) some) x

/-- member `i` of `join(*(generate_constraint(s, ctype) for s in solvers))`: the solver itself;
`none` = ZeroDivisionError / IndexError (the combinators catch the former) -/
def member (env : Env C R) (codes : List (Assign C)) (i : Nat) (x : List R) : Option (List R) :=
  match codes[i]? with
  | some c => if c.defined env x = true then some (c.exec env x) else none
  | none => some x

/-- `generate_constraint(solvers, join=constraints.and_)`; a draw is the randomised vector itself -/
def joinAnd (env : Env C R) (codes : List (Assign C)) (x : List R) (draws : List (List R)) :
    Comb.Res (List R) × Comb.Stats :=
  Comb.and_ (member env codes) (fun d _ => d) codes.length (100 * codes.length) x draws

/-- `generate_constraint(solvers, join=constraints.or_)`; a draw is the value of `rnd.randint(1,n)` -/
def joinOr (env : Env C R) (codes : List (Assign C)) (x : List R) (draws : List Nat) :
    Comb.Res (List R) × Comb.Stats :=
  Comb.or_ (member env codes) id codes.length (100 * codes.length) x draws

/-! ## penalties joined by `coupler.and_ / or_` -/

inductive PJoin where
  | and_ | or_
  deriving DecidableEq, Repr, Inhabited

/-- `sum(p(x) for p in penalties)`: python starts from the int `0` -/
def sumL (ps : List R) : R := ps.foldl (· + ·) 0

/-- `join(*(generate_penalty(g, ptype, k=, h=) for g in groups))(x)` at iteration 0 of the joining level:
`float(kj)*abs(sum / min of the member penalties) + 0.0` with `kj = 1` (coupler.py l.197, 204; penalty.py l.146-147).
`none`: `min()` of no members raises ValueError. -/
def penJoin (env : Env C R) (k' top kj : R) (j : PJoin) (groups : List (List (PType × Expr C))) (x : List R) :
    Option R :=
  match j, groups.map (fun g => penalty env k' top g x) with
  | .and_, ps => some (kj * absR (sumL ps) + 0)
  | .or_, [] => none
  | .or_, p :: ps => some (kj * absR (ps.foldl (fun a q => pyMin a q) p) + 0)

end exec

end MysticVerif.Emitted
