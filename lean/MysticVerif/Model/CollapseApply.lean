/-
Model of how an applied `CollapseAs` collapse becomes a constraint (property C11, clause "every point evaluated
afterwards ... satisfies the collapsed relation exactly (... equal to its partner)"):

* `mystic/abstract_solver.py` l.845   `cn.impose_as(collapses[k], state[k]['offset'])` - the SET of pairs `(i,j)`,
                                      `i < j`, that `collapse_as` returned, iterated in Python's set order
* `mystic/tools.py`       l.770-791   `connected(pairs)`: the dict `{key: set(members)}` built pair by pair
* `mystic/constraints.py` l.1658-1666 `impose_as`: `for i,j in connected(mask).items(): for k in j: try: x[k] = x[i]
                                      except IndexError: pass`

The `while pairs:` offset loop of `impose_as` (l.1667-1675) adds `offset` to the tracked entries; `Collapse()` passes
`False` (= 0) for `CollapseAs(offset=False)`, which leaves every value as it is (`v + 0 = v`) and is not modelled
(`offset=True` is the recorded finding F22).  Indices are the non-negative positions `numpy.where` produced.

The pairs are given as a LIST: the iteration order of the Python set (the harness passes `list(the_set)` of the very
set object that `impose_as` iterates).  A dict is a list of `(key, members)` in insertion order, a member set is a
duplicate-free list in insertion order (the order in which members are overwritten is not observable: every
assignment of one group reads the same `x[key]`).
No Mathlib imports: this file is linked into `mvdrv`.
-/

namespace MysticVerif.Clps

/-- one entry `key: {members}` of the dict of `connected` -/
abbrev Grp := Nat × List Nat
abbrev Groups := List Grp

/-- `a in (k,) or a in v` (tools.py l.785, l.787) -/
def inGrp (g : Grp) (a : Nat) : Bool := a == g.1 || g.2.contains a

/-- `v.add(a)` -/
def addTo (v : List Nat) (a : Nat) : List Nat := if v.contains a = true then v else v ++ [a]

/-- the inner loop `for k,v in collapse.items()` of `connected` (l.784-788) for one pair `(i,j)`:
the first group that contains `i` takes `j`, else if it contains `j` it takes `i`; `found` is the second component -/
def connStep : Groups → Nat → Nat → Groups × Bool
  | [], _, _ => ([], false)
  | g :: rest, i, j =>
    if inGrp g i = true then ((g.1, addTo g.2 j) :: rest, true)
    else if inGrp g j = true then ((g.1, addTo g.2 i) :: rest, true)
    else (g :: (connStep rest i j).1, (connStep rest i j).2)

/-- one iteration of `for i,j in pairs` (l.782-790): `if not found: collapse[i] = set((j,))` -/
def connAdd (coll : Groups) (p : Nat × Nat) : Groups :=
  if (connStep coll p.1 p.2).2 = true then (connStep coll p.1 p.2).1 else coll ++ [(p.1, [p.2])]

/-- `tools.connected(pairs)` (l.770-791) -/
def connected (pairs : List (Nat × Nat)) : Groups := pairs.foldl connAdd []

variable {R : Type}

/-- `for k in j: try: x[k] = x[i] except IndexError: pass` for one group (constraints.py l.1663-1666) -/
def tieGrp (g : Grp) (x : List R) : List R :=
  g.2.foldl (fun xq k => match xq[g.1]? with
    | some v => xq.set k v
    | none => xq) x

/-- the tie phase of `impose_as` over all groups (l.1662-1666) -/
def tieAll (coll : Groups) (x : List R) : List R := coll.foldl (fun xp g => tieGrp g xp) x

/-- what `impose_as(pairs, False)` does to `x` before the decorated function is called -/
def applyAs (pairs : List (Nat × Nat)) (x : List R) : List R := tieAll (connected pairs) x

/-! ### when does the grouping work: no pair may join two groups that already exist

`connected` never merges two existing groups.  A pair whose members sit in two different groups is added to the
first of them only, the groups then share a member, and that member is overwritten twice. -/

/-- `i` sits in a group that does not contain `j`, and `j` sits in some group -/
def bridges (coll : Groups) (i j : Nat) : Bool :=
  coll.any (fun g => inGrp g i && !inGrp g j) && coll.any (fun g => inGrp g j)

/-- no pair of the iteration joins two groups that exist when it is processed -/
def noBridgeFrom : Groups → List (Nat × Nat) → Bool
  | _, [] => true
  | coll, p :: ps => !bridges coll p.1 p.2 && noBridgeFrom (connAdd coll p) ps

def noBridge (pairs : List (Nat × Nat)) : Bool := noBridgeFrom [] pairs

/-- every pair after the first has a member among the members of the earlier pairs (`seen`): the pairs build ONE
component edge by edge (stars in any order, a path walked from one end or grown from the middle, trees grown from a
root, all mutually tied parameters in any order) -/
def grown : List Nat → List (Nat × Nat) → Bool
  | _, [] => true
  | seen, p :: ps => (seen.contains p.1 || seen.contains p.2) && grown (p.1 :: p.2 :: seen) ps

def oneComponentOrder : List (Nat × Nat) → Bool
  | [] => true
  | p :: ps => grown [p.1, p.2] ps

end MysticVerif.Clps
